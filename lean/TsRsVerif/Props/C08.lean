import TsRsVerif.Model.Path
import TsRsVerif.Lemmas.TextLemmas
import TsRsVerif.Lemmas.PathLemmas
import TsRsVerif.Lemmas.AbsLemmas
/-!
# C08 — import specifiers resolve to the dependency's file for every path pair

Statement file: the property theorems, counter-examples showing the hypotheses are needed, and
non-vacuity examples. Helper lemmas live in `Lemmas/`.
-/
namespace TsRs
open Text Path


/-- **C08 (main theorem).** For *every* importing file `frm` and imported file `imp` (any spelling,
any depth) whose lexically normalised absolute forms are `/fd…/<file>` and `/td…/tf.ts`:
`import_path` succeeds and its specifier is relative, has forward slashes only, carries no `.ts`
extension, ends in `.js` exactly for ES modules, and resolves — from the directory of the importing
file — to exactly the imported file. No bound on depth or name length. A stem that itself ends in `.js` is excluded only
without ES-module imports (there `./a.js` would be ambiguous; with them `a.js.ts` is imported as `./a.js.js`, which resolves). -/
theorem C08_resolves (esm : Bool) (cwd frm imp dir p b : Str) (fd td : List Str) (tf : Str)
    (hdir : parent frm = some dir)
    (hp : absolute cwd imp = .ok p) (hb : absolute cwd dir = .ok b)
    (hpc : components p = Comp.root :: N (td ++ [tf ++ dotTs]))
    (hbc : components b = Comp.root :: N fd)
    (hok : ∀ n ∈ fd ++ td ++ [tf ++ dotTs], NameOK n)
    (htf : tf ≠ []) (hts : endsWith dotTs tf = false) (hjs : esm = false → endsWith dotJs tf = false)
    (hnp : ¬ (td ++ [tf ++ dotTs]) <+: fd) :
    ∃ spec, importPath esm cwd frm imp = some (.ok spec) ∧
      specGood esm fd (td ++ [tf ++ dotTs]) spec = true := by
  -- unfold the implementation down to `specOfRel`
  have himp : importPath esm cwd frm imp = some (.ok (specOfRel esm
      (ofComps (diffLoop false (N (td ++ [tf ++ dotTs])) (N fd))))) := by
    simp only [importPath, hdir, diffPaths, hp, hb, hpc, hbc, bind, Except.bind, pure, Except.pure]
    simp [diffLoop]
  refine ⟨_, himp, ?_⟩
  -- names
  have hA : ∀ n ∈ td ++ [tf ++ dotTs], NameOK n := fun n hn => hok n (by
    simp only [List.mem_append] at hn ⊢; rcases hn with h | h
    · exact Or.inl (Or.inr h)
    · exact Or.inr h)
  have hAdots : ∀ n ∈ td ++ [tf ++ dotTs], n ≠ ['.'] ∧ n ≠ ['.', '.'] := fun n hn => ⟨(hA n hn).2.2.2.1, (hA n hn).2.2.2.2⟩
  obtain ⟨init, hS⟩ := diffNames_last td (tf ++ dotTs) fd hnp
  have hDS := diffLoop_names (td ++ [tf ++ dotTs]) fd
  -- every piece: non-empty, no slash, no backslash
  have hpiece : ∀ q ∈ diffNames (td ++ [tf ++ dotTs]) fd, q ≠ [] ∧ '/' ∉ q ∧ '\\' ∉ q := by
    intro q hq
    rcases diffNames_mem _ _ q hq with h | h
    · subst h; decide
    · exact ⟨(hA q h).1, (hA q h).2.1, (hA q h).2.2.1⟩
  -- the relative path as a string
  have hrel : ofComps (diffLoop false (N (td ++ [tf ++ dotTs])) (N fd))
      = intercalate ['/'] (diffNames (td ++ [tf ++ dotTs]) fd) := by
    rw [← hDS]
    generalize hD : diffLoop false (N (td ++ [tf ++ dotTs])) (N fd) = D at *
    cases D with
    | nil => rfl
    | cons c cs =>
      cases c with
      | root =>
        have := (hpiece ['/'] (by rw [← hDS]; simp [compStr])).2.1
        simp at this
      | cur => rfl
      | parent => rfl
      | normal s => rfl
  rw [hrel, hS]
  -- shape of the pieces: S = init ++ [tf.ts]
  have hpiece' : ∀ q ∈ init ++ [tf ++ dotTs], q ≠ [] ∧ '/' ∉ q ∧ '\\' ∉ q := by rw [← hS]; exact hpiece
  have hresolve : resolveLoop fd (init ++ [tf ++ dotTs]) = some (td ++ [tf ++ dotTs]) := by
    have := diffNames_resolve [] (td ++ [tf ++ dotTs]) fd hAdots
    rw [hS] at this; simpa using this
  have htfs : '/' ∉ tf := fun h => (hpiece' (tf ++ dotTs) (by simp)).2.1 (by simp [h])
  -- head of the pieces decides the `./` prefix
  -- S' = the pieces of strPath
  have key : ∃ S' : List Str, S' ≠ [] ∧
      strPathOf (intercalate ['/'] (init ++ [tf ++ dotTs])) = intercalate ['/'] (S' ++ [tf ++ dotTs]) ∧
      (∀ q ∈ S' ++ [tf ++ dotTs], '/' ∉ q ∧ '\\' ∉ q) ∧
      resolveLoop fd (S' ++ [tf ++ dotTs]) = some (td ++ [tf ++ dotTs]) ∧
      (S'.head? = some ['.'] ∨ S'.head? = some ['.', '.']) := by
    have hsplit : splitChar '/' (intercalate ['/'] (init ++ [tf ++ dotTs])) = init ++ [tf ++ dotTs] :=
      splitChar_intercalate '/' _ (by simp) (fun q hq => (hpiece' q hq).2.1)
    cases init with
    | nil =>
      -- single piece `tf.ts`: a normal component, so `./` is prepended
      have hn := hA (tf ++ dotTs) (by simp)
      have hne : tf ++ dotTs ≠ [] := hn.1
      have hhead : (tf ++ dotTs).head? ≠ some '/' := by
        intro h; apply hn.2.1
        cases hx : tf ++ dotTs with
        | nil => exact absurd hx hne
        | cons c cs => rw [hx] at h; simp at h; simp [h]
      refine ⟨[['.']], by simp, ?_, ?_, ?_, by simp⟩
      · have hc : components (intercalate ['/'] ([] ++ [tf ++ dotTs])) = [Comp.normal (tf ++ dotTs)] := by
          have hs := hsplit
          simp only [List.nil_append, intercalate] at hs ⊢
          unfold components
          split
          · rename_i rest heq; rw [heq] at hhead; simp at hhead
          · rw [hs]; simp [pieceComps, hn.1, hn.2.2.2.1, hn.2.2.2.2]
        unfold strPathOf; rw [hc]; simp [intercalate]
      · intro q hq
        simp at hq
        rcases hq with h | h
        · subst h; decide
        · subst h; exact ⟨hn.2.1, hn.2.2.1⟩
      · simpa [resolveLoop] using hresolve
    | cons a rest =>
      -- first piece is `..` or a directory name
      have ha := hpiece' a (by simp)
      have hamem : a = ['.', '.'] ∨ a ∈ td ++ [tf ++ dotTs] := by
        have := diffNames_mem (td ++ [tf ++ dotTs]) fd a (by rw [hS]; simp)
        exact this
      have hhead : ∀ t : Str, (a ++ t).head? ≠ some '/' := by
        intro t h
        cases a with
        | nil => exact ha.1 rfl
        | cons c cs => simp at h; exact ha.2.1 (by simp [h])
      have hstr : intercalate ['/'] (a :: rest ++ [tf ++ dotTs])
          = a ++ ['/'] ++ intercalate ['/'] (rest ++ [tf ++ dotTs]) := by
        cases rest <;> simp [intercalate]
      have hcomp : components (intercalate ['/'] (a :: rest ++ [tf ++ dotTs]))
          = pieceComps true (a :: rest ++ [tf ++ dotTs]) := by
        unfold components
        split
        · rename_i r heq
          rw [hstr] at heq
          have := hhead (['/'] ++ intercalate ['/'] (rest ++ [tf ++ dotTs]))
          simp only [List.append_assoc] at heq
          rw [heq] at this; simp at this
        · rw [hsplit]
      by_cases hdd : a = ['.', '.']
      · subst hdd
        refine ⟨['.', '.'] :: rest, by simp, ?_, ?_, ?_, by simp⟩
        · unfold strPathOf; rw [hcomp]; simp [pieceComps]
        · intro q hq; exact ⟨(hpiece' q (by simpa using hq)).2.1, (hpiece' q (by simpa using hq)).2.2⟩
        · simpa using hresolve
      · have hn : NameOK a := by
          rcases hamem with h | h
          · exact absurd h hdd
          · exact hA a h
        refine ⟨['.'] :: a :: rest, by simp, ?_, ?_, ?_, by simp⟩
        · unfold strPathOf; rw [hcomp]
          simp only [pieceComps, hn.1, hn.2.2.2.1, hdd, if_false, List.cons_append, List.head?_cons]
          simp [intercalate]
        · intro q hq
          simp at hq
          rcases hq with h | h | h | h
          · subst h; decide
          · subst h; exact ⟨ha.2.1, ha.2.2⟩
          · exact ⟨(hpiece' q (by simp [h])).2.1, (hpiece' q (by simp [h])).2.2⟩
          · exact ⟨(hpiece' q (by simp [h])).2.1, (hpiece' q (by simp [h])).2.2⟩
        · simpa [resolveLoop] using hresolve
  obtain ⟨S', hS'ne, hstrPath, hS'pieces, hS'res, hS'head⟩ := key
  -- strPath = Q ++ "/" ++ tf ++ ".ts"
  have hQ : intercalate ['/'] (S' ++ [tf ++ dotTs]) = (intercalate ['/'] S' ++ ['/'] ++ tf) ++ dotTs := by
    rw [intercalate_concat]; simp [hS'ne]
  have hsplit' : splitChar '/' (intercalate ['/'] (S' ++ [tf ++ dotTs])) = S' ++ [tf ++ dotTs] :=
    splitChar_intercalate '/' _ (by simp) (fun q hq => (hS'pieces q hq).1)
  have hbase_ts := ext_none '.' 't' 's' (by decide) (by decide) (by decide) tf (intercalate ['/'] S') htf htfs hts
  have htrim : trimEndMatches dotTs ((intercalate ['/'] S' ++ ['/'] ++ tf) ++ dotTs)
      = intercalate ['/'] S' ++ ['/'] ++ tf :=
    trimEndMatches_once dotTs _ (by decide) hbase_ts
  -- no backslash anywhere in strPath
  have hnb : '\\' ∉ intercalate ['/'] S' ++ ['/'] ++ tf := by
    intro h
    have h2 : '\\' ∈ intercalate ['/'] (S' ++ [tf ++ dotTs]) := by
      rw [hQ]; exact List.mem_append_left _ h
    rcases mem_intercalate _ _ _ h2 with h3 | ⟨q, hq, hc⟩
    · simp at h3
    · exact (hS'pieces q hq).2 hc
  -- prefix
  have hpre : startsWith ['.', '/'] (intercalate ['/'] S' ++ ['/'] ++ tf) = true ∨
      startsWith ['.', '.', '/'] (intercalate ['/'] S' ++ ['/'] ++ tf) = true := by
    cases S' with
    | nil => exact absurd rfl hS'ne
    | cons s0 srest =>
      simp at hS'head
      rcases hS'head with h | h
      · left; subst h
        cases srest <;> simp [intercalate, startsWith, stripPrefix]
      · right; subst h
        cases srest <;> simp [intercalate, startsWith, stripPrefix]
  have hpre' : ∀ t : Str, (startsWith ['.', '/'] (intercalate ['/'] S' ++ ['/'] ++ tf ++ t) ||
      startsWith ['.', '.', '/'] (intercalate ['/'] S' ++ ['/'] ++ tf ++ t)) = true := by
    intro t
    rcases hpre with h | h
    · unfold startsWith at h
      obtain ⟨r, hr⟩ := Option.isSome_iff_exists.mp h
      have := stripPrefix_eq_some hr
      rw [this]; simp [startsWith, stripPrefix]
    · unfold startsWith at h
      obtain ⟨r, hr⟩ := Option.isSome_iff_exists.mp h
      have := stripPrefix_eq_some hr
      rw [this]; simp [startsWith, stripPrefix]
  simp only [specOfRel, hstrPath, hQ, htrim]
  cases esm with
  | false =>
    have hbase_js := ext_none '.' 'j' 's' (by decide) (by decide) (by decide) tf (intercalate ['/'] S') htf htfs (hjs rfl)
    simp only [specGood, resolve, Bool.false_eq_true, if_false]
    have e1 := hpre' []
    simp only [List.append_nil] at e1
    rw [← hQ, hsplit', hS'res]
    have e3 : endsWith dotTs (intercalate ['/'] S' ++ ['/'] ++ tf) = false := by
      simp only [endsWith, startsWith, dotTs, hbase_ts, Option.isSome_none]
    have e4 : endsWith dotJs (intercalate ['/'] S' ++ ['/'] ++ tf) = false := by
      simp only [endsWith, startsWith, dotJs, hbase_js, Option.isSome_none]
    have e2 : (intercalate ['/'] S' ++ ['/'] ++ tf).contains '\\' = false := by
      simpa using hnb
    rw [e1, e2, e3, e4]; simp
  | true =>
    simp only [specGood, resolve, if_true]
    have e1 := hpre' dotJs
    have hss : stripSuffix dotJs (intercalate ['/'] S' ++ ['/'] ++ tf ++ dotJs)
        = some (intercalate ['/'] S' ++ ['/'] ++ tf) := by
      simp [stripSuffix, List.reverse_append, stripPrefix_append]
    rw [hss]
    simp only [Option.map_some]
    rw [← hQ, hsplit', hS'res]
    have e3 : endsWith dotTs (intercalate ['/'] S' ++ ['/'] ++ tf ++ dotJs) = false := by
      simp [endsWith, startsWith, dotTs, dotJs, stripPrefix]
    have e4 : endsWith dotJs (intercalate ['/'] S' ++ ['/'] ++ tf ++ dotJs) = true := by
      simp [endsWith, startsWith, List.reverse_append, stripPrefix_append]
    have e2 : (intercalate ['/'] S' ++ ['/'] ++ tf ++ dotJs).contains '\\' = false := by
      have : '\\' ∉ intercalate ['/'] S' ++ ['/'] ++ tf ++ dotJs := by
        intro h; simp only [List.mem_append] at h
        rcases h with h | h
        · exact hnb (by simpa using h)
        · simp [dotJs] at h
      simpa using this
    rw [e1, e2, e3, e4]; simp

end TsRs

namespace TsRs
open Text Path

/-! ## non-vacuity: concrete, non-trivial instances satisfying every hypothesis of `C08_resolves` -/

/-- sibling directories, relative spelling with dot segments, base `./bindings` -/
example : ∃ spec, importPath false "/w".toList "./bindings/x/../a/A.ts".toList "bindings//b/./B.ts".toList
      = some (.ok spec) ∧
    specGood false ["w".toList, "bindings".toList, "a".toList]
      (["w".toList, "bindings".toList, "b".toList] ++ ["B".toList ++ dotTs]) spec = true :=
  C08_resolves false "/w".toList "./bindings/x/../a/A.ts".toList "bindings//b/./B.ts".toList
    "./bindings/x/../a".toList "/w/bindings/b/B.ts".toList "/w/bindings/a".toList
    ["w".toList, "bindings".toList, "a".toList] ["w".toList, "bindings".toList, "b".toList] "B".toList
    (by decide) (by decide) (by decide) (by decide) (by decide) (by decide) (by decide) (by decide)
    (by decide) (by decide)

/-- the computed specifier of that instance -/
example : importPath false "/w".toList "./bindings/x/../a/A.ts".toList "bindings//b/./B.ts".toList
    = some (.ok "../b/B".toList) := by decide

/-- ES-module flavour, file whose name ends in `ts` and contains dots -/
example : importPath true "/w".toList "/out/deep/er/A.ts".toList "/out/posts.v1.ts".toList
    = some (.ok "../../posts.v1.js".toList) := by decide

/-! ## the stem condition is necessary (counter-examples, by evaluation) -/

/-- `trim_end_matches(".ts")` strips repeatedly: `a.ts.ts` is imported as `./a`, which resolves to `a.ts` -/
theorem C08_cex_stem_ts :
    importPath false "/w".toList "/w/x.ts".toList "/w/a.ts.ts".toList = some (.ok "./a".toList) ∧
    specGood false ["w".toList] ["w".toList, "a.ts.ts".toList] "./a".toList = false := by decide

/-- a stem ending in `.js` yields a specifier ending in `.js` although ES-module imports are off -/
theorem C08_cex_stem_js :
    importPath false "/w".toList "/w/x.ts".toList "/w/a.js.ts".toList = some (.ok "./a.js".toList) ∧
    specGood false ["w".toList] ["w".toList, "a.js.ts".toList] "./a.js".toList = false := by decide

end TsRs

namespace TsRs
open Text Path

/-- **C08 for every spelling of the two paths.** `C08_resolves` assumes the shape of the two normalised
absolute paths; this theorem DERIVES it. For every absolute current directory, every importing file `frm`
with a parent directory and every imported file `imp` — written relative or absolute, with `.`, `..`,
repeated or trailing separators, at any depth — on which `path::absolute` succeeds: the two results
are `/` followed by proper component names only (no `.`, no `..`, no empty piece, no separator inside a
name: `fd` for the importing directory, `A` for the imported file), and whenever the imported file is
`…/tf.ts` with a stem that is not itself `….ts` (nor `….js` without ES-module imports), the names carry
no backslash and the file is not the importing directory or one of its ancestors, `import_path`
returns a specifier satisfying all of C08's clauses for exactly those `fd` and `A`. Nothing about the
normal form is assumed any more; what is left are conditions on the NAMES, each shown necessary by a
counter-example below. -/
theorem C08_resolves_any_spelling (esm : Bool) (cwd frm imp dir p b : Str)
    (hcwd : isAbsolute cwd = true)
    (hdir : parent frm = some dir)
    (hp : absolute cwd imp = .ok p) (hb : absolute cwd dir = .ok b) :
    ∃ fd A, components p = Comp.root :: N A ∧ components b = Comp.root :: N fd ∧
      (∀ n ∈ fd ++ A, CompName n) ∧
      ∀ td tf, A = td ++ [tf ++ dotTs] → (∀ n ∈ fd ++ A, '\\' ∉ n) → tf ≠ [] →
        endsWith dotTs tf = false → (esm = false → endsWith dotJs tf = false) → ¬ A <+: fd →
        ∃ spec, importPath esm cwd frm imp = some (.ok spec) ∧ specGood esm fd A spec = true := by
  obtain ⟨A, hpA, hA⟩ := absolute_shape cwd imp p hcwd hp
  obtain ⟨fd, hbF, hF⟩ := absolute_shape cwd dir b hcwd hb
  have hpc : components p = Comp.root :: N A := by rw [hpA]; exact components_ofComps A hA
  have hbc : components b = Comp.root :: N fd := by rw [hbF]; exact components_ofComps fd hF
  have hall : ∀ n ∈ fd ++ A, CompName n := by
    intro n hn
    rcases List.mem_append.mp hn with h | h
    · exact hF n h
    · exact hA n h
  refine ⟨fd, A, hpc, hbc, hall, ?_⟩
  intro td tf hAeq hbs htf hts hjs hnp
  subst hAeq
  refine C08_resolves esm cwd frm imp dir p b fd td tf hdir hp hb hpc hbc ?_ htf hts hjs hnp
  intro n hn
  have hn' : n ∈ fd ++ (td ++ [tf ++ dotTs]) := by simpa [List.append_assoc] using hn
  have hc := hall n hn'
  exact ⟨hc.1, hc.2.1, hbs n hn', hc.2.2.1, hc.2.2.2⟩

/-- non-vacuity: the hypotheses hold for an instance with dot segments and doubled separators, and the
conclusion's specifier is the expected one -/
example : isAbsolute "/w".toList = true ∧
    parent "./bindings/x/../a/A.ts".toList = some "./bindings/x/../a".toList ∧
    absolute "/w".toList "bindings//b/./B.ts".toList = .ok "/w/bindings/b/B.ts".toList ∧
    absolute "/w".toList "./bindings/x/../a".toList = .ok "/w/bindings/a".toList ∧
    importPath true "/w".toList "./bindings/x/../a/A.ts".toList "bindings//b/./B.ts".toList
      = some (.ok "../b/B.js".toList) ∧
    specGood true ["w".toList, "bindings".toList, "a".toList]
      (["w".toList, "bindings".toList, "b".toList] ++ ["B".toList ++ dotTs]) "../b/B.js".toList = true := by decide

/-- the backslash condition is necessary: a directory named `a\b` reaches the specifier unchanged -/
theorem C08_cex_backslash :
    importPath false "/w".toList "/w/x.ts".toList "/w/a\\b/T.ts".toList = some (.ok "./a\\b/T".toList) ∧
    specGood false ["w".toList] ["w".toList, "a\\b".toList, "T.ts".toList] "./a\\b/T".toList = false := by decide

/-- the ancestor condition is necessary: importing a "file" that is the importing directory itself
yields an empty relative path, which is not a relative specifier -/
theorem C08_cex_ancestor :
    importPath false "/w".toList "/w/d.ts/x.ts".toList "/w/d.ts".toList = some (.ok [])  ∧
    specGood false ["w".toList, "d.ts".toList] ["w".toList, "d.ts".toList] [] = false := by decide

end TsRs

namespace TsRs
open Text Path

/-- **`from.parent().unwrap()` in `import_path` cannot panic**: every path that has a file name — every
path `generate_imports` passes, `out_dir.join(output_path)` of an exportable type — has a parent, so the
model's `importPath` is never `none` (its encoding of that panic) on such a path. -/
theorem C08_parent_exists (esm : Bool) (cwd frm imp f : Str) (h : fileName frm = some f) :
    (∃ dir, parent frm = some dir) ∧ importPath esm cwd frm imp ≠ none := by
  have hp : ∃ dir, parent frm = some dir := by
    unfold fileName at h
    unfold parent
    cases hc : (components frm).reverse with
    | nil =>
      have : components frm = [] := by simpa using hc
      simp [this] at h
    | cons c rest =>
      have hl : (components frm).getLast? = some c := by
        rw [List.getLast?_eq_head?_reverse, hc]; rfl
      rw [hl] at h
      cases c with
      | root => simp at h
      | cur => exact ⟨_, rfl⟩
      | parent => exact ⟨_, rfl⟩
      | normal n => exact ⟨_, rfl⟩
  refine ⟨hp, ?_⟩
  obtain ⟨dir, hd⟩ := hp
  simp [importPath, hd]

/-- non-vacuity, and the excluded case: `/` has no file name and no parent -/
example : fileName "./bindings/a/A.ts".toList = some "A.ts".toList ∧ fileName "/".toList = none ∧
    parent "/".toList = none := by decide

end TsRs
