/-
  Props/C04.lean — exported files are well-formed modules holding exactly the requested types.

  What is proven (for every name, rename, tag, content string — any characters, any length):
  * every string ts-rs writes between quotes (`quoteStr`, Rust's `{:?}`) is ONE string literal that
    ends where the generator ended it and denotes the original text (`C04_literal_roundtrip`),
    given the per-character contract `EscOk` of the escape table — proven for the ASCII table
    (`C04_ascii_table_ok`), evaluated at run time on every row of the table taken from Rust;
  * a property name is either identifier-like or such a literal, never empty (`C04_key_shape`,
    `C04_key_reads_back`);
  * a generated file starts with the notice, ends with a newline and has the layout
    notice / imports / docs / `export ` declaration (`C04_layout`);
  * whatever the order of exports into a shared file, every requested declaration is there exactly once
    (`C04_each_once`, from the merge theorems of C05).
  The tie (tools/props/c04.py) parses every real output with an independent TypeScript grammar
  (tools/props/tsgrammar.py) and compares model and implementation byte for byte.
-/
import TsRsVerif.Lemmas.QuoteLemmas
import TsRsVerif.Lemmas.MergeLemmas
import TsRsVerif.Model.Deps
namespace TsRs
open Text Case TsParse Derive

/-- **a quoted string is one literal denoting the original text** -/
theorem C04_literal_roundtrip (ops : CharOps) (hok : EscOk ops) (s rest : Str) :
    strLit (quoteStr ops s ++ rest) = some (s, rest) := strLit_quoteStr ops hok s rest

theorem C04_ascii_table_ok : EscOk asciiOps := asciiEsc_ok

/-- every quoting site of the derive model goes through `quoteStr` -/
theorem C04_quoted_is_quoteStr (cfg : Cfg) (s : Str) : quoted cfg s = quoteStr cfg.ops s := rfl

/-- **property names**: identifier-like (non-empty, letters / digits / `_` / `$`, not starting with a
digit) and written as they are, or written as a string literal -/
theorem C04_key_shape (ops : CharOps) (n : Str) :
    (rawNameToTsField ops n = n ∧ n ≠ [] ∧ (∀ c ∈ n, ops.isAlnum c = true ∨ c = '_' ∨ c = '$') ∧
        (∀ c r, n = c :: r → ops.isNumeric c = false))
    ∨ rawNameToTsField ops n = quoteStr ops n := by
  unfold rawNameToTsField
  cases h : validName ops n with
  | false => right; simp
  | true =>
    left
    simp only [validName, Bool.and_eq_true, Bool.not_eq_true', List.all_eq_true, Bool.or_eq_true, decide_eq_true_eq] at h
    refine ⟨by simp, ?_, ?_, ?_⟩
    · intro hn; subst hn; simp at h
    · intro c hc
      have := h.1.2 c hc
      rcases this with (h1 | h1) | h1
      · exact Or.inl h1
      · exact Or.inr (Or.inl h1)
      · exact Or.inr (Or.inr h1)
    · intro c r hcr
      subst hcr
      simpa using h.2

theorem C04_key_reads_back (ops : CharOps) (hok : EscOk ops) (n rest : Str) (h : validName ops n = false) :
    strLit (rawNameToTsField ops n ++ rest) = some (n, rest) := by
  unfold rawNameToTsField; simp only [h, Bool.false_eq_true, ↓reduceIte]; exact strLit_quoteStr ops hok n rest

/-- the empty name is never written bare -/
theorem C04_empty_key (ops : CharOps) : rawNameToTsField ops [] = ['"', '"'] := by
  simp [rawNameToTsField, validName, quoteStr]

/-- **layout of a generated file** -/
theorem C04_layout (cfg : Cfg) (env : Env) (fuel : Nat) (esm : Bool) (cwd outDir : Str) (it : Item) (deps : List Visited) (s : Str)
    (h : exportToString cfg env fuel esm cwd outDir it deps = some (.ok (.ok s))) :
    Merge.NOTE <+: s ∧ s.getLast? = some '\n' ∧
    ∃ imports d, s = Merge.NOTE ++ imports ++ parseDocs it.attr.docs ++ "export ".toList ++ d ++ ['\n'] := by
  unfold exportToString at h
  cases hg : generateImports esm cwd outDir it deps with
  | none => simp [hg] at h
  | some r =>
    cases r with
    | error e => simp [hg] at h
    | ok imports =>
      simp only [hg, Option.some.injEq, Except.ok.injEq] at h
      cases hd : declS cfg env fuel it with
      | panic m => simp [hd, bind, Res.bind] at h
      | ok d =>
        simp only [hd, bind, Res.bind, pure, Res.ok.injEq] at h
        subst h
        refine ⟨⟨imports ++ parseDocs it.attr.docs ++ "export ".toList ++ d ++ ['\n'], by simp [List.append_assoc]⟩, ?_, imports, d, rfl⟩
        rw [List.getLast?_append]; simp

/-- **each requested declaration exactly once** in a shared file, whatever the export order -/
theorem C04_each_once (g : List (Str × Str)) (hnd : (g.map (·.1)).Nodup) :
    ((Merge.insertAll g).map (·.1)).Perm (g.map (·.1)) ∧ ((Merge.insertAll g).map (·.1)).Nodup := by
  have h := (Merge.foldl_insert_perm g [] hnd (by simp))
  simp only [List.append_nil] at h
  have hp : (Merge.insertAll g).Perm g := h.trans (List.reverse_perm _)
  exact ⟨hp.map _, (hp.map _).nodup_iff.mpr hnd⟩

/-! ## the defect that was there: names between bare quotes -/
theorem C04_old_cex_quote :
    strLit (['"'] ++ "a\"b".toList ++ ['"'] ++ ": number".toList) ≠ some ("a\"b".toList, ": number".toList) ∧
    strLit (quoteStr asciiOps "a\"b".toList ++ ": number".toList) = some ("a\"b".toList, ": number".toList) := by
  decide +kernel

/-! ## non-vacuity -/
example : rawNameToTsField asciiOps "kebab-case".toList = "\"kebab-case\"".toList := by decide +kernel
example : rawNameToTsField asciiOps "a\\b\n".toList = "\"a\\\\b\\n\"".toList := by decide +kernel
example : rawNameToTsField asciiOps "fooBar".toList = "fooBar".toList := by decide +kernel

end TsRs
