import TsRsVerif.Model.Serde
namespace TsRs
theorem C01_placeholder : True := trivial
end TsRs
