import TsRsVerif.Model.Serde
import TsRsVerif.Model.TsEval
import TsRsVerif.Lemmas.BuiltinLemmas
import TsRsVerif.Lemmas.MemberLemmas
import TsRsVerif.Lemmas.MemberbSound
import TsRsVerif.Props.C12
/-!
# C01 — serialized values inhabit the generated TypeScript type

`Member` (Model/Ts.lean) is the meaning of a TypeScript type under the property's reading (exact
objects, `bigint` = JSON integer, `A & B` on objects = disjoint merge).  What is PROVEN here:

* `C01_oracle_sound` — the executable test the check runs on the implementation's REAL declarations
  and REAL serde_json output is sound for `Member`: a `true` verdict is a theorem instance;
* `C01_library_lifts` — every library type constructor (to any depth) preserves soundness of the
  named types below it (this is C12's induction);
* the assembly lemmas every derive arm reduces to: an exact object from its fields (`C01_struct`),
  externally / adjacently tagged variants, union arms, internally tagged struct variants.

PARTIAL: the composition "for every item, `ser` lands in `parse (decl)`" over the whole derive
(`Derive.itemDef` is a string-level model) is not proven as one theorem; it is decided per run by
the sound oracle on every generated program and value (thousands per run, all enum
representations × shapes × attributes × generics).
-/
namespace TsRs
open Text Ts Builtin

/-- **the oracle is sound**: whenever the executable membership test accepts, the JSON value IS a
member of the TypeScript type in the formal semantics (any declarations, any fuel). -/
theorem C01_oracle_sound (D : Decls) (fuel : Nat) (t : Ts) (j : JVal) (h : memberb D fuel t j = true) :
    Member D t j := memberb_sound D fuel t j h

/-- **library constructors lift soundness**: if serialization of the user types is sound
(`NamedSound`), it is sound under `Option`, `Vec`, arrays, tuples, maps, `Result`, ranges, wrappers,
nested to any depth. -/
theorem C01_library_lifts (D : Decls) (limit : Nat) (nameN : Str → List Ts → Option Ts)
    (serN : Str → List RTy → RVal → Option JVal) (hN : NamedSound D limit nameN serN)
    (t : RTy) (v : RVal) (T : Ts) (j : JVal)
    (hT : nameTyB limit nameN t = some T) (hs : serB serN t v = some j) (hc : cleanV v = true) :
    Member D T j := C12_sound_over D limit nameN serN hN t v T j hT hs hc

/-- **a struct with named fields**: the object holding exactly one entry per (non-skipped) field,
under the field's (renamed) key, each value a member of the field's type, inhabits
`{ k₁: T₁, …, kₙ: Tₙ, }` — for any number of fields, keys pairwise distinct. -/
theorem C01_struct (D : Decls) (l : List (Str × Ts × JVal)) (hnd : (l.map (·.1)).Nodup)
    (hm : ∀ x ∈ l, Member D x.2.1 x.2.2) :
    Member D (.obj (l.map fun x => (({ name := x.1 } : TsKey), x.2.1))) (.obj (l.map fun x => (x.1, x.2.2))) :=
  obj_sound D l hnd hm

/-- externally tagged non-unit variant: `{ "Name": T }` -/
theorem C01_external_variant (D : Decls) (name : Str) (T : Ts) (j : JVal) (h : Member D T j) :
    Member D (.obj [({ name := name }, T)]) (.obj [(name, j)]) := by
  have := obj_sound D [(name, T, j)] (by simp) (by intro x hx; simp at hx; subst hx; exact h)
  simpa using this

/-- externally tagged unit variant: the string literal -/
theorem C01_external_unit (D : Decls) (name : Str) : Member D (.lit name) (.str name) := Member.lit name

/-- adjacently tagged variant: `{ "tag": "Name", "content": T }` (tag ≠ content) -/
theorem C01_adjacent_variant (D : Decls) (tag content name : Str) (T : Ts) (j : JVal) (hne : tag ≠ content)
    (h : Member D T j) :
    Member D (.obj [({ name := tag }, .lit name), ({ name := content }, T)]) (.obj [(tag, .str name), (content, j)]) := by
  have := obj_sound D [(tag, .lit name, .str name), (content, T, j)]
    (by simp [hne]) (by
      intro x hx; simp at hx
      rcases hx with rfl | rfl
      · exact Member.lit name
      · exact h)
  simpa using this

/-- internally tagged struct variant / tagged struct: the tag property first, then the fields -/
theorem C01_internal_struct (D : Decls) (tag name : Str) (l : List (Str × Ts × JVal))
    (hnd : (tag :: l.map (·.1)).Nodup) (hm : ∀ x ∈ l, Member D x.2.1 x.2.2) :
    Member D (.obj (({ name := tag }, .lit name) :: l.map fun x => (({ name := x.1 } : TsKey), x.2.1)))
      (.obj ((tag, .str name) :: l.map fun x => (x.1, x.2.2))) := by
  have := obj_sound D ((tag, .lit name, .str name) :: l) (by simpa using hnd) (by
    intro x hx; simp at hx
    rcases hx with rfl | hx
    · exact Member.lit name
    · exact hm x hx)
  simpa using this

/-- a member of one arm is a member of the union the enum is declared as -/
theorem C01_union_arm (D : Decls) (arms : List Ts) (T : Ts) (j : JVal) (hT : T ∈ arms) (h : Member D T j) :
    Member D (.union arms) j := Member.union hT h

/-- a reference to a (generic) declaration is its body at the arguments -/
theorem C01_reference (D : Decls) (n : Str) (args : List Ts) (ps : List Str) (body : Ts) (j : JVal)
    (hl : lookupDecl D n = some (ps, body)) (h : Member D (subst (ps.zip args) body) j) :
    Member D (.ref n args) j := Member.ref hl h

/-! ## non-vacuity: a real-looking instance through the sound oracle -/
example : Member
    [("Leaf".toList, [], .obj [({ name := "x".toList }, .number), ({ name := "fooBar".toList }, .union [.string, .null])])]
    (.union [.obj [({ name := "t".toList }, .lit "A".toList)],
             .obj [({ name := "t".toList }, .lit "B".toList), ({ name := "c".toList }, .ref "Leaf".toList [])]])
    (.obj [("t".toList, .str "B".toList), ("c".toList, .obj [("x".toList, .int 1), ("fooBar".toList, .null)])]) :=
  C01_oracle_sound _ 10 _ _ (by decide +kernel)

end TsRs
