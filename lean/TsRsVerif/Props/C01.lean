import TsRsVerif.Model.Serde
import TsRsVerif.Model.TsEval
import TsRsVerif.Lemmas.BuiltinLemmas
import TsRsVerif.Lemmas.MemberLemmas
import TsRsVerif.Lemmas.MemberbSound
import TsRsVerif.Props.C12
import TsRsVerif.Lemmas.TreeSound
import TsRsVerif.Lemmas.UnfoldCheck
import TsRsVerif.Model.TsNorm
/-!
# C01 — serialized values inhabit the generated TypeScript type

`Member` (Model/Ts.lean) is the meaning of a TypeScript type under the property's reading (exact
objects, `bigint` = JSON integer, `A & B` on objects = disjoint merge).  What is PROVEN here:

* `C01_oracle_sound` — the executable test the check runs on the implementation's REAL declarations
  and REAL serde_json output is sound for `Member`: a `true` verdict is a theorem instance;
* `C01_library_lifts` — every library type constructor (to any depth) preserves soundness of the
  named types below it (this is C12's induction);
* the assembly lemmas every derive arm reduces to: an exact object from its fields (`C01_struct`),
  externally / adjacently tagged variants, union arms, internally tagged struct variants.

* `C01_items_sound` / `C01_types_sound` — END TO END for the core fragment (`Tree.fragB`: structs of
  every shape and enums of every representation with rename / rename_all / rename_all_fields / tag /
  content / skip / per-variant untagged, `optional` / `optional = nullable` / `optional_fields` paired with
  `skip_serializing_if`, type parameters (generic items at any instantiation), any library types around user
  types, recursion; no flatten, inline, `as`, `type`, `concrete`): for EVERY program in the fragment, every type, every value,
  every fuel, what the serde model writes inhabits what the tree-level derive (`Model/TreeDerive.lean`)
  declares. Tie: the tree-level derive is compared with the parsed REAL `decl()` of every corpus item in
  the fragment on every run (`tree_check`), the serde model with the real serde_json output.

PARTIAL: outside that fragment (flatten, inline, `as`, `concrete`) the composition over the whole
derive is not one theorem; it is decided per run by the sound oracle on every generated program and
value (thousands per run, all enum representations × shapes × attributes × generics).
-/
namespace TsRs
open Text Ts Builtin

/-- **the oracle is sound**: whenever the executable membership test accepts, the JSON value IS a
member of the TypeScript type in the formal semantics (any declarations, any fuel). -/
theorem C01_oracle_sound (D : Decls) (fuel : Nat) (t : Ts) (j : JVal) (h : memberb D fuel t j = true) :
    Member D t j := memberb_sound D fuel t j h

/-- **library constructors lift soundness**: if serialization of the user types is sound
(`NamedSound`), it is sound under `Option`, `Vec`, arrays, tuples, maps, `Result`, ranges, wrappers,
nested to any depth. -/
theorem C01_library_lifts (D : Decls) (limit : Nat) (nameN : Str → List Ts → Option Ts)
    (serN : Str → List RTy → RVal → Option JVal) (hN : NamedSound D limit nameN serN)
    (t : RTy) (v : RVal) (T : Ts) (j : JVal)
    (hT : nameTyB limit nameN t = some T) (hs : serB serN t v = some j) (hc : cleanV v = true) :
    Member D T j := C12_sound_over D limit nameN serN hN t v T j hT hs hc

/-- **a struct with named fields**: the object holding exactly one entry per (non-skipped) field,
under the field's (renamed) key, each value a member of the field's type, inhabits
`{ k₁: T₁, …, kₙ: Tₙ, }` — for any number of fields, keys pairwise distinct. -/
theorem C01_struct (D : Decls) (l : List (Str × Ts × JVal)) (hnd : (l.map (·.1)).Nodup)
    (hm : ∀ x ∈ l, Member D x.2.1 x.2.2) :
    Member D (.obj (l.map fun x => (({ name := x.1 } : TsKey), x.2.1))) (.obj (l.map fun x => (x.1, x.2.2))) :=
  obj_sound D l hnd hm

/-- externally tagged non-unit variant: `{ "Name": T }` -/
theorem C01_external_variant (D : Decls) (name : Str) (T : Ts) (j : JVal) (h : Member D T j) :
    Member D (.obj [({ name := name }, T)]) (.obj [(name, j)]) := by
  have := obj_sound D [(name, T, j)] (by simp) (by intro x hx; simp at hx; subst hx; exact h)
  simpa using this

/-- externally tagged unit variant: the string literal -/
theorem C01_external_unit (D : Decls) (name : Str) : Member D (.lit name) (.str name) := Member.lit name

/-- adjacently tagged variant: `{ "tag": "Name", "content": T }` (tag ≠ content) -/
theorem C01_adjacent_variant (D : Decls) (tag content name : Str) (T : Ts) (j : JVal) (hne : tag ≠ content)
    (h : Member D T j) :
    Member D (.obj [({ name := tag }, .lit name), ({ name := content }, T)]) (.obj [(tag, .str name), (content, j)]) := by
  have := obj_sound D [(tag, .lit name, .str name), (content, T, j)]
    (by simp [hne]) (by
      intro x hx; simp at hx
      rcases hx with rfl | rfl
      · exact Member.lit name
      · exact h)
  simpa using this

/-- internally tagged struct variant / tagged struct: the tag property first, then the fields -/
theorem C01_internal_struct (D : Decls) (tag name : Str) (l : List (Str × Ts × JVal))
    (hnd : (tag :: l.map (·.1)).Nodup) (hm : ∀ x ∈ l, Member D x.2.1 x.2.2) :
    Member D (.obj (({ name := tag }, .lit name) :: l.map fun x => (({ name := x.1 } : TsKey), x.2.1)))
      (.obj ((tag, .str name) :: l.map fun x => (x.1, x.2.2))) := by
  have := obj_sound D ((tag, .lit name, .str name) :: l) (by simpa using hnd) (by
    intro x hx; simp at hx
    rcases hx with rfl | hx
    · exact Member.lit name
    · exact hm x hx)
  simpa using this

/-- a member of one arm is a member of the union the enum is declared as -/
theorem C01_union_arm (D : Decls) (arms : List Ts) (T : Ts) (j : JVal) (hT : T ∈ arms) (h : Member D T j) :
    Member D (.union arms) j := Member.union hT h

/-- a reference to a (generic) declaration is its body at the arguments -/
theorem C01_reference (D : Decls) (n : Str) (args : List Ts) (ps : List Str) (body : Ts) (j : JVal)
    (hl : lookupDecl D n = some (ps, body)) (h : Member D (subst (ps.zip args) body) j) :
    Member D (.ref n args) j := Member.ref hl h

/-- **end to end, user types**: in a program of the fragment, the JSON the serde model writes for ANY
value of ANY instantiation of ANY item — generic or not, at any depth of nesting, any fuel — inhabits the reference
to the item's declaration applied to the TypeScript names of the type arguments, as the tree-level derive declares it. -/
theorem C01_items_sound (cfg : Cfg) (env : Env) (hF : Tree.fragB cfg env = true)
    (fuel : Nat) (id : Str) (args : List RTy) (v : RVal) (j : JVal) (it : Item) (targs : List Ts)
    (hfind : env.find id = some it) (hargs : Builtin.nameTyBL cfg.limit (Tree.nameN env) args = some targs)
    (hs : Serde.serItem cfg env fuel id args v = some j) (hc : cleanV v = true) :
    Member (Tree.declsOf cfg env) (.ref (Derive.tsName it) targs) j :=
  all_sound cfg env hF (fuel + 1) fuel (by omega) id args v j it targs hfind hargs hs hc

/-- **end to end, any type expression**: library constructors around user types -/
theorem C01_types_sound (cfg : Cfg) (env : Env) (hF : Tree.fragB cfg env = true)
    (fuel : Nat) (t : RTy) (v : RVal) (j : JVal) (T : Ts)
    (hs : Serde.serTy cfg env fuel t v = some j) (hc : cleanV v = true) (hT : Tree.tyTs cfg env t = some T) :
    Member (Tree.declsOf cfg env) T j :=
  serTy_sound cfg env fuel (fun m hm => all_sound cfg env hF fuel m hm) fuel (by omega) t v j T hs hc hT

/-- **end to end with `#[ts(inline)]`**: `env` is the program WITHOUT its `inline` marks (serde does not see them: what is written
is the same), `D'` any set of declarations that the executable test accepts as an unfolding of the tree-level declarations of
`env` — the check runs it on the parsed REAL declarations of the program WITH its marks. Then everything the serde model writes
inhabits the real declarations as well. -/
theorem C01_inline_sound (cfg : Cfg) (env : Env) (hF : Tree.fragB cfg env = true) (D' : Decls) (ufuel : Nat)
    (hw : wsdB (Tree.declsOf cfg env) = true) (hu : declsUnfB (Tree.declsOf cfg env) ufuel (Tree.declsOf cfg env) D' = true)
    (fuel : Nat) (id : Str) (args : List RTy) (v : RVal) (j : JVal) (it : Item) (targs : List Ts)
    (hfind : env.find id = some it) (hargs : Builtin.nameTyBL cfg.limit (Tree.nameN env) args = some targs)
    (hs : Serde.serItem cfg env fuel id args v = some j) (hc : cleanV v = true) :
    Member D' (.ref (Derive.tsName it) targs) j :=
  (unfold_same_values (wsdB_sound _ hw) (declsUnfB_sound _ D' ufuel hu) (unf_refl _ _) j).mp
    (C01_items_sound cfg env hF fuel id args v j it targs hfind hargs hs hc)

/-! ## non-vacuity of the end-to-end theorem: a program in the fragment, a value, its JSON -/
def exCfg : Cfg := { ops := Case.asciiOps }
def exEnv : Env := [
  { isEnum := false, name := "Leaf".toList, attr := { renameAll := some .camel },
    fields := [{ name := some "leaf_x".toList, ty := .prim "u8" }, { name := some "s".toList, ty := .option (.prim "String") }] },
  { isEnum := false, name := "G".toList, generics := [{ name := "T".toList }],
    fields := [{ name := some "t".toList, ty := .param "T".toList }, { name := some "ts".toList, ty := .vec (.param "T".toList) }] },
  { isEnum := true, name := "E".toList, attr := { tag := some "t".toList },
    variants := [{ name := "A".toList, shape := .unit, fields := [] },
                 { name := "B".toList, shape := .named, fields := [{ name := some "leaf".toList, ty := .vec (.named "Leaf".toList []) }] }] }]

example : Tree.fragB exCfg exEnv = true := by decide +kernel
-- evaluated, not kernel-checked (`serB` is defined by well-founded recursion): a test of the example, not a theorem
#guard ((Serde.serItem exCfg exEnv 10 "E".toList [] (.variant 1 [.seq [.strukt [.int 7, .none]]])).map
    (JVal.beq · (.obj [("t".toList, .str "B".toList), ("leaf".toList, .arr [.obj [("leafX".toList, .int 7), ("s".toList, .null)]])]))) == some true
example : (Tree.itemBody exCfg exEnv exEnv[2]!).map (Ts.beq · (.union [.obj [({ name := "t".toList }, .lit "A".toList)],
    .obj [({ name := "t".toList }, .lit "B".toList), ({ name := "leaf".toList }, .array (.ref "Leaf".toList []))]])) = some true := by decide +kernel

/-! ## non-vacuity: a real-looking instance through the sound oracle -/
example : Member
    [("Leaf".toList, [], .obj [({ name := "x".toList }, .number), ({ name := "fooBar".toList }, .union [.string, .null])])]
    (.union [.obj [({ name := "t".toList }, .lit "A".toList)],
             .obj [({ name := "t".toList }, .lit "B".toList), ({ name := "c".toList }, .ref "Leaf".toList [])]])
    (.obj [("t".toList, .str "B".toList), ("c".toList, .obj [("x".toList, .int 1), ("fooBar".toList, .null)])]) :=
  C01_oracle_sound _ 10 _ _ (by decide +kernel)

end TsRs
