import TsRsVerif.Model.Deps
import TsRsVerif.Generated.Tables
import TsRsVerif.Lemmas.SortedStr
import TsRsVerif.Lemmas.MergeLemmas
import TsRsVerif.Lemmas.DedupLemmas
import TsRsVerif.Lemmas.HistoryMulti
import TsRsVerif.Lemmas.WalkOrder
/-!
# C13 — bindings are a deterministic function of the source and configuration

The sources of nondeterminism are explicit in the model: the derive's dependency set is a LIST in
`Derive.itemDeps` whose order stands for the `HashSet` iteration order; everything printed goes
through ordered structures. Proven here: the functions that produce text do not look at that order
at all, the import block is invariant under permutation of the visited dependencies, and the
inventory of order- or environment-sensitive constructs of the sources equals the allow-list below.
-/
namespace TsRs
open Text Derive

/-- the allow-list: every `HashMap`/`HashSet`/`BTree*`/`TypeId`/environment/thread construct in the
two crates, with the reason it cannot influence the output.
* macros `HashMap` (attr/*.rs, lib.rs, utils.rs): `concrete` maps, only looked up by key;
* macros `HashSet` (deps.rs, lib.rs): the dependency set (order = model parameter π) and the set of
  used type parameters for the where-clause (order of bounds is not observable in the output);
* export.rs `HashMap`/`HashSet`/`Mutex`/`OnceLock`: the registry `EXPORT_PATHS` (looked up by key;
  serial order of whole steps = model parameter `sched`); `seen` set of the DFS (membership only);
* export.rs / lib.rs `BTreeMap`/`BTreeSet`: ordered by construction (plus the `impl TS` for them);
* `TypeId`: identity of instantiations (`seen`, self-import filter);
* `env::var`: `TS_RS_EXPORT_DIR` (configuration);
* lib.rs / serde_json.rs / tokio.rs `HashMap`/`HashSet`/`Mutex`: `impl TS for` those library types. -/
def orderAllowList : List (String × String × Nat) := [
  ("macros", "HashMap", 3),     -- attr/enum.rs 1, attr/struct.rs 1, lib.rs 1
  ("macros", "HashSet", 5),     -- deps.rs 4, lib.rs 1
  ("ts-rs", "BTreeMap", 4),     -- export.rs 3, lib.rs 1
  ("ts-rs", "BTreeSet", 3),     -- export.rs 2, lib.rs 1
  ("ts-rs", "HashMap", 7),      -- export.rs 1, lib.rs 4, serde_json.rs 2
  ("ts-rs", "HashSet", 4),      -- export.rs 3 (the `&mut HashSet` field of the visitor is a reference, not counted), lib.rs 1
  ("ts-rs", "Mutex", 3),        -- export.rs 1, lib.rs 1, tokio.rs 1
  ("ts-rs", "OnceLock", 2),     -- export.rs 2
  ("ts-rs", "TypeId", 5),       -- export.rs 3, lib.rs 2
  ("ts-rs", "env::var", 1)]     -- export.rs 1

/-- **inventory = allow-list** (re-proved against the regenerated inventory on every run: a new
hash container, environment read or thread primitive anywhere in the two crates breaks it; the totals are per crate, so moving code
between the files of a crate does not) -/
theorem C13_inventory : Gen.orderInventory = orderAllowList := by decide

/-- **the names a file imports are order-independent**: `generate_imports` first collects the visited
dependencies into a `BTreeMap` keyed by name; the sorted key list is the same for every permutation
of the visited dependencies (every `HashSet` iteration order of every derive involved) -/
theorem C13_import_names_perm (deps deps' : List Visited) (h : deps.Perm deps') :
    (deps.map (·.ident)).foldl (fun a x => insertSorted x a) []
      = (deps'.map (·.ident)).foldl (fun a x => insertSorted x a) [] :=
  foldl_insertSorted_perm _ _ (h.map _)

/-- **the whole import block is order-independent**: `generate_imports` prints the same text (or fails
the same way) for every order in which the derive's `HashSet` hands over the dependencies, provided
no two different dependencies carry the same TypeScript name (then the text is inherently ambiguous) -/
theorem C13_generate_imports_perm (esm : Bool) (cwd outDir : Str) (it : Item) (deps deps' : List Visited)
    (hp : deps.Perm deps')
    (hnd : ((deps.filter fun d => !RTy.beq d.ty (withoutGenerics it)).map (·.ident)).Nodup) :
    generateImports esm cwd outDir it deps = generateImports esm cwd outDir it deps' := by
  unfold generateImports
  rw [dedupByName_perm it deps deps' hp hnd]

/-- … and so is the whole generated file -/
theorem C13_export_to_string_perm (cfg : Cfg) (env : Env) (fuel : Nat) (esm : Bool) (cwd outDir : Str) (it : Item)
    (deps deps' : List Visited) (hp : deps.Perm deps')
    (hnd : ((deps.filter fun d => !RTy.beq d.ty (withoutGenerics it)).map (·.ident)).Nodup) :
    exportToString cfg env fuel esm cwd outDir it deps = exportToString cfg env fuel esm cwd outDir it deps' := by
  unfold exportToString
  rw [C13_generate_imports_perm esm cwd outDir it deps deps' hp hnd]

/-- **declarations in a shared file are order-independent** (restated from C05): whichever test
happens to export a shared dependency first, the block list is the same -/
theorem C13_blocks_perm (g₁ g₂ : List (Str × Str)) (hp : g₁.Perm g₂) (hnd : (g₁.map (·.1)).Nodup) :
    Merge.insertAll g₁ = Merge.insertAll g₂ := by
  have hnd₂ : (g₂.map (·.1)).Nodup := (hp.map _).nodup_iff.mp hnd
  have s₁ := Merge.foldl_insert_sorted g₁ [] (by simp [Merge.SortedN])
  have s₂ := Merge.foldl_insert_sorted g₂ [] (by simp [Merge.SortedN])
  have p₁ := Merge.foldl_insert_perm g₁ [] hnd (by simp)
  have p₂ := Merge.foldl_insert_perm g₂ [] hnd₂ (by simp)
  refine Merge.sorted_perm_eq s₁ s₂ ?_
  simp only [List.append_nil] at p₁ p₂
  exact p₁.trans ((List.reverse_perm _).trans (hp.trans ((List.reverse_perm _).symm.trans p₂.symm)))

/-- **thread schedules**: what several test threads export (each holds the registry lock for a whole `export_and_merge`) is an
interleaving of their operation lists; any two interleavings are permutations of one another, so they end in file systems that
agree at every location — the directory is a function of the set of exports, not of the schedule. -/
theorem C13_schedule_independent (slots : List Slot) (w : World) (sched₁ sched₂ : List Op) (hperm : sched₁.Perm sched₂)
    (hs : SlotsOK w.fs slots) (hok : OpsOK slots sched₁)
    (hp : w.poisoned = false) (hreg : ∀ s ∈ slots, Export.regGet w.reg (Export.regKey s.1) = none) :
    ∃ w₁ w₂, runOps slots w sched₁ = (w₁, true) ∧ runOps slots w sched₂ = (w₂, true) ∧
      w₁.fs.cwd = w₂.fs.cwd ∧ ∀ l, w₁.fs.lookup l = w₂.fs.lookup l :=
  multi_order_independent slots w sched₁ sched₂ hperm hs hok hp hreg

/-- **the order in which dependencies are visited does not reach the files**: two tables that differ only in the order (and
multiplicity) of every type's dependency list — what a different iteration order of a hash-based collection, or a reordering inside
the derive, amounts to; identifiers, output paths and generated texts are the same (the texts do not depend on that order either:
`C13_export_to_string_perm`) — give `export_all` walks from the same root that visit the same types in possibly different orders, and
whenever both succeed they leave the same regular files with the same contents everywhere (`Lemmas/WalkOrder.lean`). -/
theorem C13_walk_order_independent (u₁ u₂ : Export.Universe) (hsame : SameUpToDepOrder u₁ u₂) (slots : List TSlot) (dir : Str)
    (gen : Nat → GenT) (rel : Nat → Str) (slotOf : Nat → Nat) (f₁ f₂ : Nat) (w w₁ w₂ : World) (i : Nat) (s₁ s₂ : List Nat)
    (h₁ : Export.exportRec u₁ f₁ w [] dir i = some (w₁, s₁, .ok)) (h₂ : Export.exportRec u₂ f₂ w [] dir i = some (w₂, s₂, .ok))
    (htab : ∀ j, Export.Reach u₁ i j → TableOK u₁ slots dir gen rel slotOf j)
    (hs : TSlotsOK w.fs slots)
    (hsp : ∀ j, Export.Reach u₁ i j → ∀ s, slots[slotOf j]? = some s → Path.absolute (Export.cwdStr w.fs) (Path.join dir (rel j)) = .ok s.path)
    (hgen : ∀ j, Export.Reach u₁ i j → GenOK (gen j))
    (hname : ∀ j j', Export.Reach u₁ i j → Export.Reach u₁ i j' → slotOf j = slotOf j' → (gen j).name = (gen j').name → j = j')
    (hident : ∀ j j', Export.Reach u₁ i j → Export.Reach u₁ i j' → slotOf j = slotOf j' → (gen j).ident = (gen j').ident → j = j')
    (hp : w.poisoned = false) (hreg : ∀ s ∈ slots, Export.regGet w.reg (Export.regKey s.path) = none) :
    ∀ l c, w₁.fs.lookup l = some (.file c) ↔ w₂.fs.lookup l = some (.file c) :=
  walk_order_independent u₁ u₂ hsame slots dir gen rel slotOf f₁ f₂ w w₁ w₂ i s₁ s₂ h₁ h₂ htab hs hsp hgen hname hident hp hreg

/-! non-vacuity: a root with two dependencies sharing one file, visited in the two possible orders -/
def exWA : GenT := ⟨"Alpha".toList, "Alpha".toList, [("./deep/shared".toList, ["Beta".toList, "Gamma".toList])], "export type Alpha = { b: Beta, c: Gamma, };".toList⟩
def exWB : GenT := ⟨"Beta".toList, "Beta".toList, [], "export type Beta = number;".toList⟩
def exWC : GenT := ⟨"Gamma".toList, "Gamma".toList, [], "export type Gamma = string;".toList⟩
def exWGen : Nat → GenT := fun j => if j = 0 then exWA else if j = 1 then exWB else exWC
def exWRel : Nat → Str := fun j => if j = 0 then "Alpha.ts".toList else "deep/shared.ts".toList
def exWU (deps0 : List Nat) : Export.Universe := [0, 1, 2].map fun j =>
  { ident := (exWGen j).ident, outputPath := some (exWRel j), text := .ok (genText (exWGen j)), deps := if j = 0 then deps0 else [] }
def exWW : World := { fs := { nodes := [(["w".toList], .dir)], cwd := ["w".toList] }, reg := [] }
example : SameUpToDepOrder (exWU [1, 2]) (exWU [2, 1, 2]) := by
  refine ⟨rfl, ?_⟩
  intro k t₁ t₂ h1 h2
  rcases k with _ | _ | _ | k
  · simp [exWU] at h1 h2; subst h1; subst h2; simp
  · simp [exWU] at h1 h2; subst h1; subst h2; simp
  · simp [exWU] at h1 h2; subst h1; subst h2; simp
  · simp [exWU] at h1
#guard ((Export.exportRec (exWU [1, 2]) 8 exWW [] "./out".toList 0).map fun r => r.2.1) == some [2, 1, 0]
#guard ((Export.exportRec (exWU [2, 1, 2]) 8 exWW [] "./out".toList 0).map fun r => r.2.1) == some [1, 2, 0]
#guard [["w".toList, "out".toList, "deep".toList, "shared.ts".toList], ["w".toList, "out".toList, "Alpha.ts".toList]].all fun l =>
  ((Export.exportRec (exWU [1, 2]) 8 exWW [] "./out".toList 0).bind fun r => r.1.fs.lookup l)
    == ((Export.exportRec (exWU [2, 1, 2]) 8 exWW [] "./out".toList 0).bind fun r => r.1.fs.lookup l)
  && ((Export.exportRec (exWU [1, 2]) 8 exWW [] "./out".toList 0).bind fun r => r.1.fs.lookup l).isSome

end TsRs
