import TsRsVerif.Model.Export
namespace TsRs
theorem C06_placeholder : True := trivial
end TsRs
