import TsRsVerif.Model.Export
import TsRsVerif.Lemmas.AbsLemmas
import TsRsVerif.Lemmas.SpellingLemmas
import TsRsVerif.Lemmas.HistoryWorld
import TsRsVerif.Lemmas.HistoryMulti
import TsRsVerif.Lemmas.HistoryTo
import TsRsVerif.Lemmas.HistoryToMulti
import TsRsVerif.Lemmas.HistoryRepeat
import TsRsVerif.Lemmas.WalkMany
/-!
# C06 — export results depend only on what was exported, not how or in what order

Proven here (over `Model/Export.lean`): the result of an export does not depend on *which entry
point* is used (`export` ≡ `export_into` the default directory — this is exactly what the pinned
snapshot violated and the `fix:` commit repaired), nor on *how the directory is spelled* (any two
spellings that `path::absolute` normalises alike drive the whole depth-first export identically),
because the registry key is always the normalised path and `absolute` is idempotent.
Order independence of the file *contents*, on the bytes and for whole histories, is `C06_history_order_independent`
(one file; a corollary of the refinement theorem `C05_history_canonical`) and `C06_directory_order_independent` (any number of
files, exports interleaved in any way: `Lemmas/HistoryMulti.lean`).
-/
namespace TsRs
open Text Export Path

/-- **entry-point independence**: `T::export()` does exactly what `export_into::<T>(default dir)`
(the unit of `export_all`) does — same file, same registry key, same outcome. -/
theorem C06_export_eq_export_into (u : Universe) (dod : Str) (w : World) (i : Nat) (t : TyInfo) (op : Str)
    (hu : u[i]? = some t) (ho : t.outputPath = some op) :
    runEntry u dod w (.export i) = some (exportInto w t dod) := by
  simp only [runEntry, hu, ho, exportInto]
  congr 1
  cases ha : absolute (cwdStr w.fs) (join dod op) with
  | error e => simp [exportTo, ha]
  | ok p =>
    simp only
    have hcwd : isAbsolute (cwdStr w.fs) = true := by simp [cwdStr, isAbsolute]
    have hid := absolute_idem _ _ _ hcwd ha
    simp [exportTo, ha, hid]

/-- **the registry key is a normal form**: normalising twice is normalising once -/
theorem C06_key_normal_form (cwd p q : Str) (hcwd : isAbsolute cwd = true) (h : absolute cwd p = .ok q) :
    absolute cwd q = .ok q := absolute_idem cwd p q hcwd h

/-- **spelling independence**: if two spellings `d`, `d'` of the export directory normalise alike
(`SameDir`), the whole `export_all_to` walk — file system, registry, visited set, outcome — is the
same, for every universe of types, every world and every root. -/
theorem C06_spelling_independent (u : Universe) (w : World) (d d' : Str) (i : Nat)
    (h : SameDir w.fs.cwd d d') :
    runEntry u "".toList w (.exportAllTo i d) = runEntry u "".toList w (.exportAllTo i d') := by
  simp only [runEntry]
  rw [(exportRec_spelling u w.fs.cwd d d' h (u.length + 1) w [] i rfl).1]

/-- one export step under two spellings of the same path is the same step -/
theorem C06_step_spelling (w : World) (t : TyInfo) (p p' : Str)
    (h : absolute (cwdStr w.fs) p = absolute (cwdStr w.fs) p') : exportTo w t p = exportTo w t p' := by
  simp [exportTo, h]

/-! ## the spellings of the property statement, for a concrete directory (by evaluation) -/
example : let cwd := "/home/u/proj".toList
    absolute cwd "./bindings/A.ts".toList = .ok "/home/u/proj/bindings/A.ts".toList ∧
    absolute cwd "bindings//A.ts".toList = .ok "/home/u/proj/bindings/A.ts".toList ∧
    absolute cwd "/home/u/proj/bindings/A.ts".toList = .ok "/home/u/proj/bindings/A.ts".toList ∧
    absolute cwd "x/../bindings/./A.ts".toList = .ok "/home/u/proj/bindings/A.ts".toList ∧
    absolute cwd "../proj/bindings/A.ts".toList = .ok "/home/u/proj/bindings/A.ts".toList := by decide

/-! ## the defect of the pinned snapshot, as a counter-example: the key `export()` used -/
/-- **the result depends only on WHAT was exported**: two histories that export the same set of (well-formed, distinctly
named) texts into one path of a fresh process, in any two orders, both succeed at every step and end in the SAME file
system (byte for byte) and the same set of registered names. -/
theorem C06_history_order_independent (w : World) (path : Str) (h₁ h₂ : List GenT) (hperm : h₁.Perm h₂) (hne : h₁ ≠ [])
    (hok : ∀ x ∈ h₁, GenOK x) (hnd : (h₁.map (·.name)).Nodup) (hndI : (h₁.map (·.ident)).Nodup)
    (hp : w.poisoned = false) (hreg : regGet w.reg (regKey path) = none)
    (hc : ∃ text, (w.fs.fileCreate path text).isSome) :
    ∃ w₁ w₂, runAll path w h₁ = (w₁, true) ∧ runAll path w h₂ = (w₂, true) ∧ w₁.fs = w₂.fs ∧
      ∀ n, (∃ names, regGet w₁.reg (regKey path) = some names ∧ n ∈ names) ↔ (∃ names, regGet w₂.reg (regKey path) = some names ∧ n ∈ names) :=
  history_order_independent w path h₁ h₂ hperm hne hok hnd hndI hp hreg hc

/-- **interleaved exports into several files**: `slots` are the files (normalised path, location), an operation is (file, generated
text). From a process that has written none of them, every step returns `Ok`; afterwards every file that received exports holds
exactly the canonical text of ITS exports, every other location is as before, the lock is not poisoned. -/
theorem C06_interleaved_history (slots : List Slot) (w : World) (ops : List Op) (hs : SlotsOK w.fs slots) (hok : OpsOK slots ops)
    (hp : w.poisoned = false) (hreg : ∀ s ∈ slots, regGet w.reg (regKey s.1) = none) :
    ∃ w', runOps slots w ops = (w', true) ∧ w'.poisoned = false ∧
      (∀ (i : Nat) s, slots[i]? = some s → gensAt i ops ≠ [] → w'.fs.lookup s.2 = some (.file (fileText (canonSt (gensAt i ops))))) ∧
      (∀ l, (∀ (i : Nat) s, slots[i]? = some s → s.2 = l → gensAt i ops = []) → w'.fs.lookup l = w.fs.lookup l) := by
  obtain ⟨w', hr, hi⟩ := multi_history slots w ops hs hok hp hreg
  exact ⟨w', hr, hi.alive, hi.files, hi.untouched⟩

/-- **the directory depends only on WHAT was exported WHERE**: any two interleavings of the same operations over any number of
files both succeed and end in file systems that agree at every location. -/
theorem C06_directory_order_independent (slots : List Slot) (w : World) (ops₁ ops₂ : List Op) (hperm : ops₁.Perm ops₂)
    (hs : SlotsOK w.fs slots) (hok : OpsOK slots ops₁)
    (hp : w.poisoned = false) (hreg : ∀ s ∈ slots, regGet w.reg (regKey s.1) = none) :
    ∃ w₁ w₂, runOps slots w ops₁ = (w₁, true) ∧ runOps slots w ops₂ = (w₂, true) ∧
      w₁.fs.cwd = w₂.fs.cwd ∧ ∀ l, w₁.fs.lookup l = w₂.fs.lookup l :=
  multi_order_independent slots w ops₁ ops₂ hperm hs hok hp hreg

/-! non-vacuity: two files in a concrete file system, three interleaved exports -/
def exFs : Fs := { nodes := [(["w".toList], .dir), (["w".toList, "out".toList], .dir)], cwd := ["w".toList] }
def exSlots : List Slot := [("/w/out/shared.ts".toList, ["w".toList, "out".toList, "shared.ts".toList]), ("/w/out/Other.ts".toList, ["w".toList, "out".toList, "Other.ts".toList])]
def exA : GenT := ⟨"Alpha".toList, "Alpha".toList, [], "export type Alpha = { a: number, };".toList⟩
def exB : GenT := ⟨"Beta".toList, "Beta<T>".toList, [("./Other".toList, ["Other".toList])], "export type Beta<T> = { o: Other, t: T, };".toList⟩
def exO : GenT := ⟨"Other".toList, "Other".toList, [], "export type Other = string;".toList⟩

example : SlotsOK exFs exSlots := by
  refine ⟨by decide +kernel, by decide +kernel, by decide +kernel, by decide +kernel, ?_, ?_⟩
  · intro i j a b hi hj h
    rcases i with _ | _ | i <;> rcases j with _ | _ | j <;> simp [exSlots] at hi hj <;> first | rfl | (subst hi; subst hj; exact absurd h (by decide +kernel))
  · intro i j a b hi hj h
    rcases i with _ | _ | i <;> rcases j with _ | _ | j <;> simp [exSlots] at hi hj <;> first | rfl | (subst hi; subst hj; exact absurd h (by decide +kernel))
#guard (runOps exSlots { fs := exFs, reg := [] } [(0, exB), (1, exO), (0, exA)]).2
#guard ((runOps exSlots { fs := exFs, reg := [] } [(0, exB), (1, exO), (0, exA)]).1.fs.lookup ["w".toList, "out".toList, "shared.ts".toList])
  == ((runOps exSlots { fs := exFs, reg := [] } [(0, exA), (0, exB), (1, exO)]).1.fs.lookup ["w".toList, "out".toList, "shared.ts".toList])

/-- **histories through the entry point `export_to`, whatever the spelling and whatever directories exist**: in a process that has
not written the file yet, two sequences of `export_to` calls whose generated texts are permutations of one another — each call with
its OWN spelling of the path (relative, absolute, `./`, `..` segments: anything `path::absolute` normalises to `path`) — both return
`Ok` at every step and end in the SAME file system byte for byte. The first call creates the missing parent directories
(`create_dir_all`, result `fsD`); later calls find them (`create_dir_all` is then the identity, also after the file exists:
`Fs.createDirAll_idem`). The only thing assumed about the target is that it is not a directory (`hfile`): once `create_dir_all` has
run, the normal form `/n₁/../nₖ/name` resolves to `[n₁, .., nₖ, name]` below an existing directory and `File::create` succeeds
(`exportTo_target_creatable`, from `absolute_shape`). -/
theorem C06_export_to_histories (w : World) (path par : Str) (fsD : Fs) (s₁ s₂ : List (Str × GenT))
    (hperm : (s₁.map (·.2)).Perm (s₂.map (·.2))) (hne : s₁ ≠ [])
    (habs₁ : ∀ s ∈ s₁, Path.absolute (cwdStr w.fs) s.1 = .ok path) (habs₂ : ∀ s ∈ s₂, Path.absolute (cwdStr w.fs) s.1 = .ok path)
    (hpar : Path.parent path = some par) (hd : w.fs.createDirAll par = some fsD)
    (hok : ∀ x ∈ s₁.map (·.2), GenOK x) (hnd : ((s₁.map (·.2)).map (·.name)).Nodup) (hndI : ((s₁.map (·.2)).map (·.ident)).Nodup)
    (hp : w.poisoned = false) (hreg : regGet w.reg (regKey path) = none)
    (hfile : ∀ loc, fsD.resolve path = some loc → fsD.lookup loc ≠ some .dir) :
    ∃ w₁ w₂, runAllTo w s₁ = (w₁, true) ∧ runAllTo w s₂ = (w₂, true) ∧ w₁.fs = w₂.fs := by
  cases s₁ with
  | nil => exact absurd rfl hne
  | cons a as =>
    have hc := exportTo_target_creatable w a.1 path par fsD [] (habs₁ a (by simp)) hpar hd hfile
    exact historyTo_order_independent w path par fsD (a :: as) s₂ hperm hne habs₁ habs₂ hpar hd hok hnd hndI hp hreg ⟨[], hc⟩

/-- … and what that file system is: the directories `create_dir_all` made, plus exactly the canonical file of the exported texts -/
theorem C06_export_to_history_canonical (w : World) (path par : Str) (fsD : Fs) (p0 : Str) (g : GenT) (rest : List (Str × GenT))
    (habs : ∀ s ∈ (p0, g) :: rest, Path.absolute (cwdStr w.fs) s.1 = .ok path) (hpar : Path.parent path = some par)
    (hd : w.fs.createDirAll par = some fsD)
    (hok : ∀ x ∈ g :: rest.map (·.2), GenOK x) (hnd : ((g :: rest.map (·.2)).map (·.name)).Nodup)
    (hndI : ((g :: rest.map (·.2)).map (·.ident)).Nodup)
    (hp : w.poisoned = false) (hreg : regGet w.reg (regKey path) = none)
    (hfile : ∀ loc, fsD.resolve path = some loc → fsD.lookup loc ≠ some .dir) :
    ∃ w' loc, runAllTo w ((p0, g) :: rest) = (w', true) ∧ fsD.resolve path = some loc ∧
      w'.fs = fsD.set loc (.file (fileText (canonSt (g :: rest.map (·.2))))) := by
  have hc := exportTo_target_creatable w p0 path par fsD (genText g) (habs (p0, g) (by simp)) hpar hd hfile
  obtain ⟨w', loc, h, _, _, hr, _, hfs, _⟩ := historyTo_canonical w path par fsD p0 g rest habs hpar hd hok hnd hndI hp hreg hc
  exact ⟨w', loc, h, hr, hfs⟩

/-! non-vacuity: no `out/deep` directory yet; three spellings of one file -/
def exFs0 : Fs := { nodes := [(["w".toList], .dir)], cwd := ["w".toList] }
def exSp1 : List (Str × GenT) := [("out/deep/shared.ts".toList, exB), ("/w/out/./deep/shared.ts".toList, exA)]
def exSp2 : List (Str × GenT) := [("./out/x/../deep/shared.ts".toList, exA), ("out/deep/shared.ts".toList, exB)]
example : (∀ s ∈ exSp1 ++ exSp2, Path.absolute (cwdStr exFs0) s.1 = .ok "/w/out/deep/shared.ts".toList)
    ∧ Path.parent "/w/out/deep/shared.ts".toList = some "/w/out/deep".toList
    ∧ (exFs0.createDirAll "/w/out/deep".toList).isSome := by decide +kernel
#guard (runAllTo { fs := exFs0, reg := [] } exSp1).2 && (runAllTo { fs := exFs0, reg := [] } exSp2).2
#guard ((runAllTo { fs := exFs0, reg := [] } exSp1).1.fs.lookup ["w".toList, "out".toList, "deep".toList, "shared.ts".toList])
  == ((runAllTo { fs := exFs0, reg := [] } exSp2).1.fs.lookup ["w".toList, "out".toList, "deep".toList, "shared.ts".toList])

/-- **several files through `export_to`, directories created on the way**: `slots` are the target files (directory names below
the root, file name), a step is (file, generated text, spelling of the path). From a process that has written none of them — and
whatever directories exist: each step runs `create_dir_all` for its own file — every step of ANY interleaving returns `Ok`, and
afterwards every file that received exports holds exactly the canonical text of ITS exports, every other regular file is as it was,
no target has become a directory (`Lemmas/HistoryToMulti.lean`: the invariant `TInv` is preserved by `export_to`, using what
`create_dir_all` changes — `Fs.createDirAllAux_lookup` — and when it succeeds — `Fs.createDirAllAux_succeeds`). -/
theorem C06_export_to_interleaved (slots : List TSlot) (w : World) (ops : List TOp) (hs : TSlotsOK w.fs slots)
    (hok : TOpsOK slots (cwdStr w.fs) ops) (hp : w.poisoned = false) (hreg : ∀ s ∈ slots, regGet w.reg (regKey s.path) = none) :
    ∃ w', runOpsTo slots w ops = (w', true) ∧
      (∀ (i : Nat) s, slots[i]? = some s → gensAt i (ops.map (·.1)) ≠ [] →
        w'.fs.lookup s.loc = some (.file (fileText (canonSt (gensAt i (ops.map (·.1))))))) ∧
      (∀ l c, (∀ (i : Nat) s, slots[i]? = some s → s.loc = l → gensAt i (ops.map (·.1)) = []) →
        (w'.fs.lookup l = some (.file c) ↔ w.fs.lookup l = some (.file c))) := by
  obtain ⟨w', hr, hinv⟩ := tmulti_history slots w ops hs hok hp hreg
  exact ⟨w', hr, hinv.files, hinv.others⟩

/-- … and the result depends only on what was exported where: two interleavings of the same steps (any order, any spellings; the
directories are created by whichever step comes first) leave the same regular files with the same contents -/
theorem C06_export_to_directory_independent (slots : List TSlot) (w : World) (ops₁ ops₂ : List TOp) (hperm : ops₁.Perm ops₂)
    (hs : TSlotsOK w.fs slots) (hok : TOpsOK slots (cwdStr w.fs) ops₁)
    (hp : w.poisoned = false) (hreg : ∀ s ∈ slots, regGet w.reg (regKey s.path) = none) :
    ∃ w₁ w₂, runOpsTo slots w ops₁ = (w₁, true) ∧ runOpsTo slots w ops₂ = (w₂, true) ∧
      ∀ l c, w₁.fs.lookup l = some (.file c) ↔ w₂.fs.lookup l = some (.file c) :=
  tmulti_order_independent slots w ops₁ ops₂ hperm hs hok hp hreg

/-! non-vacuity: two files in two directories that do not exist yet, three steps with three spellings -/
instance : DecidablePred Path.CompName := fun n => by unfold Path.CompName; infer_instance
def exTSlots : List TSlot := [⟨["w".toList, "out".toList, "deep".toList], "shared.ts".toList⟩, ⟨["w".toList, "out".toList], "Other.ts".toList⟩]
def exTOps : List TOp := [((0, exB), "out/deep/shared.ts".toList), ((1, exO), "/w/out/./Other.ts".toList), ((0, exA), "./out/x/../deep/shared.ts".toList)]
example : (∀ s ∈ exTSlots, ∀ n ∈ s.ns ++ [s.name], Path.CompName n) ∧ (∀ a ∈ exTSlots, ∀ b ∈ exTSlots, ∀ k, k ≤ b.ns.length → a.loc ≠ b.ns.take k)
    ∧ (∀ s ∈ exTSlots, exFs0.lookup s.loc ≠ some .dir)
    ∧ (∀ op ∈ exTOps, ∀ s, exTSlots[op.1.1]? = some s → Path.absolute (cwdStr exFs0) op.2 = .ok s.path) := by
  refine ⟨by decide +kernel, by decide +kernel, by decide +kernel, ?_⟩
  intro op hop s hs'
  simp only [exTOps, List.mem_cons, List.not_mem_nil, or_false] at hop
  rcases hop with rfl | rfl | rfl <;> simp [exTSlots] at hs' <;> subst hs' <;> decide +kernel
#guard (runOpsTo exTSlots { fs := exFs0, reg := [] } exTOps).2
#guard ((runOpsTo exTSlots { fs := exFs0, reg := [] } exTOps).1.fs.lookup ["w".toList, "out".toList, "deep".toList, "shared.ts".toList])
  == ((runOpsTo exTSlots { fs := exFs0, reg := [] } exTOps.reverse).1.fs.lookup ["w".toList, "out".toList, "deep".toList, "shared.ts".toList])

/-- **exporting a type again changes nothing — which entry point exported what does not matter**: in a history over several files some
steps export something new (`news`, in order), the others repeat an earlier export of the same type into the same file (what happens
when a type is first exported alone and later reached by `export_all`, or when two `export_all`s share a dependency), through any
spelling of the path. Every step returns `Ok`, and the history ends in the invariant of the history WITHOUT the repeats: each file
holds the canonical text of the types exported into it, once each; nothing is lost, nothing is written twice
(`Lemmas/HistoryRepeat.lean`: a repeated step finds the type in the registry and leaves the file alone). -/
theorem C06_repeated_exports_are_noops (slots : List TSlot) (w : World) (ops : List TOp) (news : List Op)
    (hs : TSlotsOK w.fs slots) (hd : Dedup [] ops news)
    (hr : ∀ op ∈ ops, op.1.1 < slots.length)
    (hsp : ∀ op ∈ ops, ∀ s, slots[op.1.1]? = some s → Path.absolute (cwdStr w.fs) op.2 = .ok s.path)
    (hg : ∀ op ∈ news, GenOK op.2)
    (hnm : ∀ i, ((gensAt i news).map (·.name)).Nodup) (hid : ∀ i, ((gensAt i news).map (·.ident)).Nodup)
    (hp : w.poisoned = false) (hreg : ∀ s ∈ slots, regGet w.reg (regKey s.path) = none) :
    ∃ w', runOpsTo slots w ops = (w', true) ∧ TInv w.fs slots news w' := by
  have := tmulti_repeats w.fs slots hs ops [] news w hd (tinv_init slots w hs hp hreg) hr hsp
    (by
      intro x hx
      rcases hx with ⟨o, ho, rfl⟩ | ⟨o, ho, _⟩
      · exact hg o ho
      · cases ho)
    (by simpa using hnm) (by simpa using hid)
  simpa using this

/-! non-vacuity: `Beta` into `shared.ts`, `Other`, `Beta` AGAIN through another spelling, then `Alpha` into `shared.ts` -/
def exRepOps : List TOp := [((0, exB), "out/deep/shared.ts".toList), ((1, exO), "/w/out/./Other.ts".toList),
  ((0, exB), "./out/x/../deep/shared.ts".toList), ((0, exA), "out/deep/shared.ts".toList)]
example : Dedup [] exRepOps [(0, exB), (1, exO), (0, exA)] :=
  Dedup.new (Dedup.new (Dedup.rep (by simp [gensAt]) (Dedup.new Dedup.nil)))
#guard (runOpsTo exTSlots { fs := exFs0, reg := [] } exRepOps).2
#guard ((runOpsTo exTSlots { fs := exFs0, reg := [] } exRepOps).1.fs.lookup ["w".toList, "out".toList, "deep".toList, "shared.ts".toList])
  == some (.file (fileText (canonSt [exB, exA])))

/-- **any number of `export_all` calls in one process**: each call walks from its root with a fresh `seen` set, so a type reachable
from two roots is exported twice. Whenever the calls succeed, every target file holds exactly the canonical text of the types reachable
from ANY of the roots that belong there — once each, in name order, whatever the order of the calls and of the walks — and every other
regular file is as it was (`Lemmas/WalkMany.lean`: the calls are one sequence of `export_into` steps with repeats; `tmulti_repeats`). -/
theorem C06_export_all_sequences (u : Universe) (slots : List TSlot) (dir : Str) (gen : Nat → GenT) (rel : Nat → Str) (slotOf : Nat → Nat)
    (fuel : Nat) (w w' : World) (roots : List Nat) (h : Walks u dir fuel w roots w')
    (htab : ∀ j, (∃ r ∈ roots, Reach u r j) → TableOK u slots dir gen rel slotOf j)
    (hs : TSlotsOK w.fs slots)
    (hsp : ∀ j, (∃ r ∈ roots, Reach u r j) → ∀ s, slots[slotOf j]? = some s → Path.absolute (cwdStr w.fs) (Path.join dir (rel j)) = .ok s.path)
    (hgen : ∀ j, (∃ r ∈ roots, Reach u r j) → GenOK (gen j))
    (hname : ∀ j j', (∃ r ∈ roots, Reach u r j) → (∃ r ∈ roots, Reach u r j') → slotOf j = slotOf j' → (gen j).name = (gen j').name → j = j')
    (hident : ∀ j j', (∃ r ∈ roots, Reach u r j) → (∃ r ∈ roots, Reach u r j') → slotOf j = slotOf j' → (gen j).ident = (gen j').ident → j = j')
    (hp : w.poisoned = false) (hreg : ∀ s ∈ slots, regGet w.reg (regKey s.path) = none) :
    ∃ news : List Nat, news.Nodup ∧ (∀ j, j ∈ news ↔ ∃ r ∈ roots, Reach u r j) ∧
      TInv w.fs slots (news.map fun j => (slotOf j, gen j)) w' :=
  walks_files u slots dir gen rel slotOf fuel w w' roots h htab hs hsp hgen hname hident hp hreg

/-! non-vacuity: two roots with a common dependency that shares its file with the second root -/
def exMGen : Nat → GenT := fun j => if j = 0 then exA else if j = 1 then exB else exO
def exMRel : Nat → Str := fun j => if j = 2 then "Other.ts".toList else "deep/shared.ts".toList
def exMU : Universe := [0, 1, 2].map fun j => { ident := (exMGen j).ident, outputPath := some (exMRel j), text := .ok (genText (exMGen j)), deps := if j = 2 then [] else [2] }
def exMW : World := { fs := exFs0, reg := [] }
def exMAfter (roots : List Nat) : Option World := roots.foldl (fun ow r => ow.bind fun w => (exportRec exMU 8 w [] "./out".toList r).bind fun x =>
  if x.2.2 == Outcome.ok then some x.1 else none) (some exMW)
#guard ((exMAfter [0, 1]).bind fun w => w.fs.lookup ["w".toList, "out".toList, "deep".toList, "shared.ts".toList]) == some (.file (fileText (canonSt [exA, exB])))
#guard ((exMAfter [1, 0]).bind fun w => w.fs.lookup ["w".toList, "out".toList, "deep".toList, "shared.ts".toList]) == some (.file (fileText (canonSt [exA, exB])))
#guard ((exMAfter [1, 0]).bind fun w => w.fs.lookup ["w".toList, "out".toList, "Other.ts".toList]) == some (.file (fileText (canonSt [exO])))

/-- before the fix `export()` keyed the registry by the un-normalised path: as `PathBuf`s the two
spellings of one file are different keys -/
theorem C06_old_cex_keys_differ :
    regKey "./bindings/shared.ts".toList ≠ regKey "/w/bindings/shared.ts".toList := by decide

end TsRs
