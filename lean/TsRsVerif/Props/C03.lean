import TsRsVerif.Model.Deps
import TsRsVerif.Lemmas.ImportLemmas
import TsRsVerif.Lemmas.DepsLemmas
import TsRsVerif.Lemmas.DepsGeneric
import TsRsVerif.Lemmas.SameFile
import TsRsVerif.Props.C08
/-!
# C03 — exported files import exactly the names they use, from where they live

Theorems about `generateImports` (= `generate_imports`, export.rs:326-381) for EVERY list of visited
dependencies (every dependency graph, every placement): the import block never imports from the
file itself, names every specifier once and every name once per specifier, in sorted order.
`C03_imports_exactly_used`: for every monomorphic item of the fragment (structs of every shape, enums of every
representation, rename / tag / skip / optional, any library types around user types, generic user types applied to
arguments) the names `dependencies()` visits are EXACTLY the names the declaration mentions — nothing missing, nothing
unused (`Lemmas/UsedNames.lean`: mentioned = visited for every type expression; `Lemmas/DepsLemmas.lean`: per field,
variant, item). Its hypotheses exclude exactly the recorded findings (zero-length arrays, `inline` / `flatten`).
`C03_generic_imports_exactly_used`: the same for GENERIC items — the file of `G<T>` is generated from `G<Dummy>`
(`T::WithoutGenerics`), the names visited are exactly the declarations the generic body refers to, the parameters themselves are
bound by the header (`Lemmas/DepsGeneric.lean`: visiting at arguments = visiting the instance; renaming parameters changes nothing).
`C03_generic_with_defaults`: with defaults of type parameters the names visited are those of the body together with those of the
defaults — both are written in the declaration (`type G<A, B = D> = body`).
PARTIAL: `concrete`, `inline`, `flatten`, `as`; there the claim is decided on every run by the closure
oracle over the real exported directories (independent TypeScript reader), and the four known exceptions are recorded
as findings with witnesses.
-/
namespace TsRs
open Text Derive Merge

/-- invariant: well-formed (sorted, duplicate-free) and no specifier that denotes the file itself -/
def ImportsOK (path : Str) (m : Imports) : Prop :=
  ImportsWF m ∧ ∀ k ∈ m.map (·.1), Path.isSameFile path k = false

theorem importStep_inv (esm : Bool) (cwd outDir path : Str) (ds : List Visited) :
    ∀ (acc : Option (Except ExportErr Imports)) (m : Imports),
      (∀ m0, acc = some (.ok m0) → ImportsOK path m0) →
      ds.foldl (importStep esm cwd outDir path) acc = some (.ok m) → ImportsOK path m := by
  induction ds with
  | nil => intro acc m h hm; exact h m hm
  | cons d ds ih =>
    intro acc m h hm
    simp only [List.foldl_cons] at hm
    refine ih (importStep esm cwd outDir path acc d) m ?_ hm
    intro m1 h1
    unfold importStep at h1
    cases acc with
    | none => simp at h1
    | some r =>
      cases r with
      | error e => simp at h1
      | ok m0 =>
        have h0 := h m0 rfl
        simp only at h1
        cases hi : Path.importPath esm cwd path (Path.join outDir d.path) with
        | none => simp [hi] at h1
        | some ri =>
          cases ri with
          | error e => simp [hi] at h1
          | ok rel =>
            simp only [hi] at h1
            by_cases hs : Path.isSameFile path rel = true
            · simp only [hs, if_true, Option.some.injEq, Except.ok.injEq] at h1
              subst h1; exact h0
            · simp only [hs, Bool.false_eq_true, if_false, Option.some.injEq, Except.ok.injEq] at h1
              subst h1
              refine ⟨insertImport_wf rel d.ident m0 h0.1, ?_⟩
              intro k hk
              rcases (insertImport_keys rel d.ident m0 k).mp hk with hk' | hk'
              · subst hk'; simpa using hs
              · exact h0.2 k hk'

/-- **the import block of every exported file**: (a) no import line names the file itself;
(b) the specifiers are strictly sorted — one `import type` line per imported file;
(c) under each specifier the names are strictly sorted — every name imported exactly once. -/
theorem C03_import_block (esm : Bool) (cwd outDir path : Str) (ds : List Visited) (m : Imports)
    (h : ds.foldl (importStep esm cwd outDir path) (some (.ok [])) = some (.ok m)) :
    (∀ k ∈ m.map (·.1), Path.isSameFile path k = false) ∧
    (m.map (·.1)).Pairwise (fun a b => ltStr a b = true) ∧
    (∀ e ∈ m, e.2.Nodup) := by
  have := importStep_inv esm cwd outDir path ds (some (.ok [])) m
    (fun m0 h0 => by
      simp only [Option.some.injEq, Except.ok.injEq] at h0
      subst h0; exact ⟨⟨by simp, by simp⟩, by simp⟩) h
  refine ⟨this.2, this.1.1, fun e he => ?_⟩
  exact (this.1.2 e he).imp (fun hab => ltStr_ne hab)

/-- the same, stated for `generate_imports` itself: whatever text it returns is the rendering of
such a well-formed, self-free import map -/
theorem C03_generate_imports (esm : Bool) (cwd outDir : Str) (it : Item) (deps : List Visited) (text : Str)
    (h : generateImports esm cwd outDir it deps = some (.ok text)) :
    ∃ m : Imports, text = renderImports m ++ ['\n'] ∧
      (∀ k ∈ m.map (·.1), Path.isSameFile (Path.join outDir (outputPath it)) k = false) ∧
      (m.map (·.1)).Pairwise (fun a b => ltStr a b = true) ∧ (∀ e ∈ m, e.2.Nodup) := by
  unfold generateImports at h
  simp only at h
  cases hf : (dedupByName it deps).foldl (importStep esm cwd outDir (Path.join outDir (outputPath it))) (some (.ok [])) with
  | none => simp [hf] at h
  | some r =>
    cases r with
    | error e => simp [hf] at h
    | ok m =>
      simp only [hf, Option.some.injEq, Except.ok.injEq] at h
      exact ⟨m, h.symm, C03_import_block esm cwd outDir _ _ m hf⟩

/-- **imports exactly what it uses**: the names visited by `dependencies()` of a monomorphic item of the fragment are
exactly the names its declaration mentions -/
theorem C03_imports_exactly_used (cfg : Cfg) (env : Env) (it : Item) (f : Nat) (body : Ts)
    (hfind : env.find it.name = some it) (hg : it.generics = [])
    (hta : it.attr.typeAs = none) (hto : it.attr.typeOverride = none)
    (hv : ∀ v ∈ it.variants, v.attr.typeAs = none ∧ v.attr.typeOverride = none)
    (hp : ∀ fld ∈ it.fields, PlainField env f fld) (hpv : ∀ v ∈ it.variants, ∀ fld ∈ v.fields, PlainField env f fld)
    (hb : Tree.itemBody cfg env it = some body) :
    ∀ n, n ∈ idents (visitDeps env (f + 1) (.named it.name [])) ↔ n ∈ refNames body :=
  item_visit cfg env it f body hfind hg hta hto hv hp hpv hb

/-- **… and for a generic item**: what `generate_imports::<T::WithoutGenerics>` visits (the item at the placeholder `Dummy` for every
parameter) are exactly the names of declarations its generic body refers to; type parameters are bound by the declaration's own
header and are not imported. For items of the fragment without parameter defaults and without `concrete`. -/
theorem C03_generic_imports_exactly_used (cfg : Cfg) (env : Env) (it : Item) (f : Nat) (body : Ts)
    (hfind : env.find it.name = some it) (hdef : ∀ g ∈ it.generics, g.default = none) (hconc : it.attr.concrete = [])
    (hta : it.attr.typeAs = none) (hto : it.attr.typeOverride = none)
    (hv : ∀ v ∈ it.variants, v.attr.typeAs = none ∧ v.attr.typeOverride = none)
    (hp : ∀ fld ∈ it.fields, PlainField env f fld) (hpv : ∀ v ∈ it.variants, ∀ fld ∈ v.fields, PlainField env f fld)
    (hS : it.isEnum = false → it.shape = .named → it.fields.all (Tree.fieldOkN cfg it.attr.renameAll it.attr.optionalFields) = true)
    (hE : it.isEnum = true → ∀ v ∈ it.variants, v.shape = .named → v.fields.all (Tree.fieldOkN cfg (Tree.renameAllT it v) .no) = true)
    (hb : Tree.itemBody cfg env it = some body) :
    ∀ n, n ∈ idents (visitDeps env (f + 1) (withoutGenerics it)) ↔ n ∈ refNames body :=
  item_visit_generic cfg env it f body hfind hdef hconc hta hto hv hp hpv hS hE hb

/-- **… with defaults of type parameters**: the declaration `type G<A, B = D> = body` mentions the names of the body and the names of
the defaults; those, and only those, are visited (hence imported) -/
theorem C03_generic_with_defaults (cfg : Cfg) (env : Env) (it : Item) (f : Nat) (body : Ts)
    (hfind : env.find it.name = some it) (hconc : it.attr.concrete = [])
    (hdef : ∀ g ∈ it.generics, ∀ d, g.default = some d → tyWF env d = true ∧ depthR d < f ∧ (Tree.tyTs cfg env d).isSome)
    (hta : it.attr.typeAs = none) (hto : it.attr.typeOverride = none)
    (hv : ∀ v ∈ it.variants, v.attr.typeAs = none ∧ v.attr.typeOverride = none)
    (hp : ∀ fld ∈ it.fields, PlainField env f fld) (hpv : ∀ v ∈ it.variants, ∀ fld ∈ v.fields, PlainField env f fld)
    (hS : it.isEnum = false → it.shape = .named → it.fields.all (Tree.fieldOkN cfg it.attr.renameAll it.attr.optionalFields) = true)
    (hE : it.isEnum = true → ∀ v ∈ it.variants, v.shape = .named → v.fields.all (Tree.fieldOkN cfg (Tree.renameAllT it v) .no) = true)
    (hb : Tree.itemBody cfg env it = some body) :
    ∀ n, n ∈ idents (visitDeps env (f + 1) (withoutGenerics it)) ↔ (n ∈ refNames body ∨ n ∈ defaultNames cfg env it) :=
  item_visit_generic_defaults cfg env it f body hfind hconc hdef hta hto hv hp hpv hS hE hb

/-! non-vacuity: a generic struct over a leaf type and its own parameters -/
def exGenEnv : Env := [
  { isEnum := false, name := "L".toList, fields := [{ name := some "v".toList, ty := .prim "u8" }] },
  { isEnum := false, name := "G".toList, generics := [{ name := "T".toList }, { name := "U".toList }], fields := [
      { name := some "t".toList, ty := .param "T".toList }, { name := some "l".toList, ty := .vec (.named "L".toList []) },
      { name := some "m".toList, ty := .map (.prim "String") (.option (.param "U".toList)) }] }]
#guard idents (visitDeps exGenEnv 6 (withoutGenerics exGenEnv[1]!)) == ["L".toList]
#guard (Tree.itemBody { ops := Case.asciiOps } exGenEnv exGenEnv[1]!).map refNames == some ["L".toList]
def exGenEnvD : Env := [
  { isEnum := false, name := "L".toList, fields := [{ name := some "v".toList, ty := .prim "u8" }] },
  { isEnum := false, name := "M".toList, fields := [{ name := some "w".toList, ty := .prim "bool" }] },
  { isEnum := false, name := "H".toList, generics := [{ name := "A".toList }, { name := "B".toList, default := some (.vec (.named "M".toList [])) }], fields := [
      { name := some "a".toList, ty := .param "A".toList }, { name := some "b".toList, ty := .param "B".toList },
      { name := some "l".toList, ty := .named "L".toList [] }] }]
#guard idents (visitDeps exGenEnvD 6 (withoutGenerics exGenEnvD[2]!)) == ["L".toList, "M".toList]
#guard defaultNames { ops := Case.asciiOps } exGenEnvD exGenEnvD[2]! == ["M".toList]

/-- … for every type expression: what `visit::<T>()` + `visit_generics` reach = what the TypeScript name of `T` mentions -/
theorem C03_type_mentions_eq_visits (cfg : Cfg) (env : Env) (t : RTy) (T : Ts) (f : Nat)
    (hw : tyWF env t = true) (hd : depthR t < f) (hT : Tree.tyTs cfg env t = some T) :
    ∀ n, n ∈ idents (visitOne env f t ++ visitGenerics env f t) ↔ n ∈ refNames T :=
  visit_refs cfg env t T f hw hd hT

/-- the finding C03-zero-length-array, in the model: `[L; 0]` mentions nothing but still visits `L` -/
theorem C03_cex_zero_length_array :
    let env : Env := [{ isEnum := false, name := "L".toList, fields := [{ name := some "v".toList, ty := .prim "u8" }] }]
    refNames ((Tree.tyTs { ops := Case.asciiOps } env (.arr (.named "L".toList []) 0)).getD .never) = [] ∧
    idents (visitGenerics env 3 (.arr (.named "L".toList []) 0)) = ["L".toList] := by
  decide +kernel

/-- the type's own instantiation is never among the candidates (`dep.type_id != TypeId::of::<T>()`) -/
theorem C03_self_filtered (it : Item) (deps : List Visited) :
    ∀ d ∈ deps.filter (fun d => !RTy.beq d.ty (withoutGenerics it)), RTy.beq d.ty (withoutGenerics it) = false := by
  intro d hd
  simpa using (List.mem_filter.mp hd).2


/-! ## the `is_same_file` test (export.rs) against C08's specification of a specifier -/

/-- **An import is dropped as "same file" only when it is the importing file** (no ES-module imports): for
every importing file `…/ff.ts` whose stem does not itself end in `.ts`, every directory `fd` and every
target `A` — if a specifier meets C08's clauses for `A` (relative, resolves to `A` from `fd`, no `.js`: what
`C08_resolves` proves of `import_path`'s result) and passes `is_same_file`, then `A` is `fd/ff.ts`, the
importing file. So `generate_imports` never loses the import of a type that lives elsewhere. -/
theorem C03_same_file_only_self (fd A : List Str) (frm spec ff : Str)
    (hfn : Path.fileName frm = some (ff ++ Path.dotTs))
    (hffs : '/' ∉ ff) (hts : Text.endsWith Path.dotTs ff = false)
    (hgood : Path.specGood false fd A spec = true)
    (hsame : Path.isSameFile frm spec = true) :
    A = fd ++ [ff ++ Path.dotTs] :=
  Path.same_file_only_self fd A frm spec ff hfn hffs hts hgood hsame

/-- **… and the importing file itself is always recognised**: `./<stem>` passes the test, so a file never
imports from itself (stem ending neither in `.ts` nor in `.js`). -/
theorem C03_same_file_detects_self (frm ff : Str) (hfn : Path.fileName frm = some (ff ++ Path.dotTs))
    (hts : Text.endsWith Path.dotTs ff = false) (hjs : Text.endsWith Path.dotJs ff = false) :
    Path.isSameFile frm (['.', '/'] ++ ff) = true :=
  Path.same_file_detects_self frm ff hfn hts hjs

/-- non-vacuity: both theorems' hypotheses hold for `/w/bindings/a/A.ts` -/
example : Path.fileName "/w/bindings/a/A.ts".toList = some ("A".toList ++ Path.dotTs) ∧
    Path.specGood false ["w".toList, "a".toList] ["w".toList, "a".toList, "A.ts".toList] "./A".toList = true ∧
    Path.isSameFile "/w/bindings/a/A.ts".toList "./A".toList = true ∧
    Path.isSameFile "/w/bindings/a/A.ts".toList "../b/A".toList = false := by decide

/-- the stem condition is necessary: the file `a.ts.ts` imports from its sibling `a.ts` through the
specifier `./a`, which meets every clause of C08 — and `is_same_file` drops it (`trim_end_matches`
strips `.ts` twice). Same root as `C08_cex_stem_ts`; such file names need `export_to = "a.ts.ts"`. -/
theorem C03_cex_same_file_stem :
    Path.importPath false "/w".toList "/w/a.ts.ts".toList "/w/a.ts".toList = some (.ok "./a".toList) ∧
    Path.specGood false ["w".toList] ["w".toList, "a.ts".toList] "./a".toList = true ∧
    Path.isSameFile "/w/a.ts.ts".toList "./a".toList = true := by decide


/-- **The same with ES-module imports** (`import-esm`): the specifier is `s'.js` and the test strips `.js`
repeatedly, so `s'` must not itself end in `.js` — for `import_path`'s result: the target's stem does not. -/
theorem C03_same_file_only_self_esm (fd A : List Str) (frm spec s' ff : Str)
    (hfn : Path.fileName frm = some (ff ++ Path.dotTs))
    (hffs : '/' ∉ ff) (hts : Text.endsWith Path.dotTs ff = false)
    (hs : spec = s' ++ Path.dotJs) (hs' : Text.endsWith Path.dotJs s' = false)
    (hgood : Path.specGood true fd A spec = true)
    (hsame : Path.isSameFile frm spec = true) :
    A = fd ++ [ff ++ Path.dotTs] :=
  Path.same_file_only_self_esm fd A frm spec s' ff hfn hffs hts hs hs' hgood hsame

/-- non-vacuity of the ES-module statement -/
example : Path.specGood true ["w".toList] ["w".toList, "A.ts".toList] "./A.js".toList = true ∧
    Path.isSameFile "/w/A.ts".toList "./A.js".toList = true ∧
    Text.endsWith Path.dotJs "./A".toList = false := by decide

/-- its extra condition is necessary: with ES-module imports `a.ts` imports from its sibling `a.js.ts`
through `./a.js.js` — which C08 accepts and which resolves — and `is_same_file` drops it. -/
theorem C03_cex_same_file_stem_esm :
    Path.importPath true "/w".toList "/w/a.ts".toList "/w/a.js.ts".toList = some (.ok "./a.js.js".toList) ∧
    Path.specGood true ["w".toList] ["w".toList, "a.js.ts".toList] "./a.js.js".toList = true ∧
    Path.isSameFile "/w/a.ts".toList "./a.js.js".toList = true := by decide


/-- **A file never imports from itself, under any spelling of its own path** (no ES-module imports): for every
importing file `…/ff.ts` and every dependency path that normalises to the same file — relative, absolute,
with dot segments, at any depth — `import_path` returns `./ff` and the `is_same_file` test skips it. -/
theorem C03_self_import_skipped (cwd frm imp dir p b ff : Str) (fd : List Str)
    (hdir : Path.parent frm = some dir) (hfn : Path.fileName frm = some (ff ++ Path.dotTs))
    (hp : Path.absolute cwd imp = .ok p) (hb : Path.absolute cwd dir = .ok b)
    (hpc : Path.components p = Comp.root :: Path.N (fd ++ [ff ++ Path.dotTs]))
    (hbc : Path.components b = Comp.root :: Path.N fd)
    (hff : ff ≠ []) (hffs : '/' ∉ ff)
    (hts : Text.endsWith Path.dotTs ff = false) (hjs : Text.endsWith Path.dotJs ff = false) :
    Path.importPath false cwd frm imp = some (.ok (['.', '/'] ++ ff)) ∧
    Path.isSameFile frm (['.', '/'] ++ ff) = true :=
  Path.self_import_skipped cwd frm imp dir p b ff fd hdir hfn hp hb hpc hbc hff hffs hts hjs

/-- non-vacuity: one file under two spellings -/
example : Path.importPath false "/w".toList "./bindings/x/../a/A.ts".toList "bindings//a/./A.ts".toList
      = some (.ok "./A".toList) ∧
    Path.isSameFile "./bindings/x/../a/A.ts".toList "./A".toList = true :=
  C03_self_import_skipped "/w".toList "./bindings/x/../a/A.ts".toList "bindings//a/./A.ts".toList
    "./bindings/x/../a".toList "/w/bindings/a/A.ts".toList "/w/bindings/a".toList "A".toList
    ["w".toList, "bindings".toList, "a".toList]
    (by decide) (by decide) (by decide) (by decide) (by decide) (by decide) (by decide) (by decide)
    (by decide) (by decide)


/-- **`generate_imports` drops a dependency only when it lives in the importing file** — the two halves put
together on `import_path`'s OWN result (no ES-module imports): under the hypotheses of `C08_resolves` for the
pair (importing file `…/ff.ts` in directory `fd`, dependency file `td…/tf.ts`), the specifier `import_path`
returns passes the `is_same_file` test only if `td…/tf.ts` IS `fd/ff.ts`. -/
theorem C03_dropped_import_is_self (cwd frm imp dir p b ff : Str) (fd td : List Str) (tf : Str)
    (hdir : Path.parent frm = some dir) (hfn : Path.fileName frm = some (ff ++ Path.dotTs))
    (hffs : '/' ∉ ff) (hffts : Text.endsWith Path.dotTs ff = false)
    (hp : Path.absolute cwd imp = .ok p) (hb : Path.absolute cwd dir = .ok b)
    (hpc : Path.components p = Comp.root :: Path.N (td ++ [tf ++ Path.dotTs]))
    (hbc : Path.components b = Comp.root :: Path.N fd)
    (hok : ∀ n ∈ fd ++ td ++ [tf ++ Path.dotTs], Path.NameOK n)
    (htf : tf ≠ []) (hts : Text.endsWith Path.dotTs tf = false) (hjs : Text.endsWith Path.dotJs tf = false)
    (hnp : ¬ (td ++ [tf ++ Path.dotTs]) <+: fd) :
    ∃ spec, Path.importPath false cwd frm imp = some (.ok spec) ∧
      (Path.isSameFile frm spec = true → td ++ [tf ++ Path.dotTs] = fd ++ [ff ++ Path.dotTs]) := by
  obtain ⟨spec, himp, hgood⟩ := C08_resolves false cwd frm imp dir p b fd td tf hdir hp hb hpc hbc hok htf hts
    (fun _ => hjs) hnp
  exact ⟨spec, himp, fun hsame => Path.same_file_only_self fd _ frm spec ff hfn hffs hffts hgood hsame⟩


/-- **… and with ES-module imports**: the same file under any spelling yields `./ff.js`, and the test skips it. -/
theorem C03_self_import_skipped_esm (cwd frm imp dir p b ff : Str) (fd : List Str)
    (hdir : Path.parent frm = some dir) (hfn : Path.fileName frm = some (ff ++ Path.dotTs))
    (hp : Path.absolute cwd imp = .ok p) (hb : Path.absolute cwd dir = .ok b)
    (hpc : Path.components p = Comp.root :: Path.N (fd ++ [ff ++ Path.dotTs]))
    (hbc : Path.components b = Comp.root :: Path.N fd)
    (hff : ff ≠ []) (hffs : '/' ∉ ff)
    (hts : Text.endsWith Path.dotTs ff = false) (hjs : Text.endsWith Path.dotJs ff = false) :
    Path.importPath true cwd frm imp = some (.ok (['.', '/'] ++ ff ++ Path.dotJs)) ∧
    Path.isSameFile frm (['.', '/'] ++ ff ++ Path.dotJs) = true :=
  Path.self_import_skipped_esm cwd frm imp dir p b ff fd hdir hfn hp hb hpc hbc hff hffs hts hjs

example : Path.importPath true "/w".toList "./bindings/x/../a/A.ts".toList "bindings//a/./A.ts".toList
      = some (.ok "./A.js".toList) ∧
    Path.isSameFile "./bindings/x/../a/A.ts".toList "./A.js".toList = true := by decide


/-- **Only a specifier that starts with `./` can pass the `is_same_file` test**, for every importing file and
every specifier, with or without ES-module imports: a dependency reached through `../` — a parent or sibling
directory, whatever the file names (`v2/index.ts` importing `../index`, seeded change C03-19) — is never
taken for the importing file. -/
theorem C03_same_file_starts_dot_slash (frm spec : Str) (h : Path.isSameFile frm spec = true) :
    Text.startsWith ['.', '/'] spec = true :=
  Path.same_file_starts_dot_slash frm spec h

/-- the situation of C03-19 in the model: same stem, parent directory -/
example : Path.importPath false "/w".toList "/w/v2/index.ts".toList "/w/index.ts".toList = some (.ok "../index".toList) ∧
    Path.isSameFile "/w/v2/index.ts".toList "../index".toList = false ∧
    Path.isSameFile "/w/v2/index.ts".toList "./index".toList = true := by decide

end TsRs
