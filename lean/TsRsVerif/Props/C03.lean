import TsRsVerif.Model.Deps
namespace TsRs
theorem C03_placeholder : True := trivial
end TsRs
