import TsRsVerif.Model.TsWitness
namespace TsRs
theorem C02_placeholder : True := trivial
end TsRs
