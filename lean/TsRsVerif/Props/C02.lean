import TsRsVerif.Model.TsWitness
import TsRsVerif.Model.TsEval
import TsRsVerif.Lemmas.MemberbSound
/-!
# C02 — every inhabitant of the generated TypeScript type deserializes

C02 speaks about serde's `Deserialize`, which is decided on the IMPLEMENTATION: the check enumerates
JSON witnesses of the real declarations (`Ts.witnesses`) and near-miss mutants of real samples,
keeps those the sound membership test accepts, and feeds them to the real `serde_json::from_str`.
Proven here is the part that makes a rejection a genuine counter-example: every candidate that is
kept IS a member of the declared type in the formal semantics (`C02_kept_candidates_are_members`).
A `de` model with a completeness theorem is not built (see DESIGN.md, C02 is PARTIAL).
-/
namespace TsRs
open Text Ts

/-- the filter the check applies to candidate witnesses -/
def keep (D : Decls) (t : Ts) (cands : List JVal) : List JVal := cands.filter fun j => memberb D 60 t j

/-- **every kept candidate inhabits the declared type** — so when serde rejects one, the declared
type really is wider than what the backend accepts -/
theorem C02_kept_candidates_are_members (D : Decls) (t : Ts) (cands : List JVal) :
    ∀ j ∈ keep D t cands, Member D t j := by
  intro j hj
  exact memberb_sound D 60 t j (by simpa [keep] using (List.mem_filter.mp hj).2)

/-- the enumerated witnesses of a union include witnesses of each arm that has any (each arm is
tried: this is what makes a superfluous or mis-tagged arm visible) -/
theorem C02_union_arms_enumerated (D : Decls) (cap f : Nat) (xs : List Ts) (w : JVal)
    (h : w ∈ witnesses D cap (f + 1) (.union xs)) : ∃ x ∈ xs, w ∈ witnesses D cap f x := by
  simp only [witnesses, capList] at h
  have h1 := List.mem_of_mem_take h
  rw [List.mem_flatMap] at h1
  obtain ⟨x, hx, hw⟩ := h1
  exact ⟨x, hx, List.mem_of_mem_take hw⟩

/-! ## non-vacuity -/
example : JVal.beqList (witnesses [] 24 10 (.union [.obj [({ name := "t".toList }, .lit "A".toList)],
      .obj [({ name := "t".toList }, .lit "B".toList), ({ name := "c".toList, optional := true }, .array .bigint)]]))
    [.obj [("t".toList, .str "A".toList)],
       .obj [("t".toList, .str "B".toList), ("c".toList, .arr [])],
       .obj [("t".toList, .str "B".toList), ("c".toList, .arr [.int 1])],
       .obj [("t".toList, .str "B".toList)]] = true := by decide +kernel

end TsRs
