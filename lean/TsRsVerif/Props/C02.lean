import TsRsVerif.Model.TsWitness
import TsRsVerif.Model.TsEval
import TsRsVerif.Lemmas.MemberbSound
import TsRsVerif.Lemmas.DeComplete2
import TsRsVerif.Lemmas.UnfoldCheck
/-!
# C02 — every inhabitant of the generated TypeScript type deserializes

`Model/De.lean` is an acceptance model of serde's `Deserialize` (validated against the real `serde_json::from_str` on every
candidate of every run). `C02_members_are_accepted` proves the property for every enum representation — externally, internally,
adjacently tagged, `untagged` enums and single `untagged` variants (serde tries them in turn: the rank is the minimum) —, generic items and their
instantiations included (`Lemmas/DeInst.lean`: reading a value as `Name<A, B>` is reading it as the instance of the item, whose
body is the generic body with the argument names substituted, and which is again in the fragment): a JSON value with
distinct keys that inhabits the generated type is never rejected for its shape — the model accepts it, or rejects it only
because of a LEAF (a number outside the Rust leaf type's range, a string that is not one character for `char`), which is what
the statement's parenthesis excludes. The proof is a structural recursion on the membership derivation over every library type,
struct shape and enum representation of the fragment (`Lemmas/DeComplete*.lean`). `C02_real_members_are_accepted` transports it
to declarations with `#[ts(inline)]` through the unfolding theorem. Outside the fragment (`flatten`) the check still feeds witnesses to the real Deserialize; `C02_kept_candidates_are_members` makes a rejection there a
genuine counter-example.
-/
namespace TsRs
open Text Ts

/-- the filter the check applies to candidate witnesses -/
def keep (D : Decls) (t : Ts) (cands : List JVal) : List JVal := cands.filter fun j => memberb D 60 t j

/-- **every kept candidate inhabits the declared type** — so when serde rejects one, the declared
type really is wider than what the backend accepts -/
theorem C02_kept_candidates_are_members (D : Decls) (t : Ts) (cands : List JVal) :
    ∀ j ∈ keep D t cands, Member D t j := by
  intro j hj
  exact memberb_sound D 60 t j (by simpa [keep] using (List.mem_filter.mp hj).2)

/-- the enumerated witnesses of a union include witnesses of each arm that has any (each arm is
tried: this is what makes a superfluous or mis-tagged arm visible) -/
theorem C02_union_arms_enumerated (D : Decls) (cap f : Nat) (xs : List Ts) (w : JVal)
    (h : w ∈ witnesses D cap (f + 1) (.union xs)) : ∃ x ∈ xs, w ∈ witnesses D cap f x := by
  simp only [witnesses, capList] at h
  have h1 := List.mem_of_mem_take h
  rw [List.mem_flatMap] at h1
  obtain ⟨x, hx, hw⟩ := h1
  exact ⟨x, hx, List.mem_of_mem_take hw⟩

/-! ## non-vacuity -/
example : JVal.beqList (witnesses [] 24 10 (.union [.obj [({ name := "t".toList }, .lit "A".toList)],
      .obj [({ name := "t".toList }, .lit "B".toList), ({ name := "c".toList, optional := true }, .array .bigint)]]))
    [.obj [("t".toList, .str "A".toList)],
       .obj [("t".toList, .str "B".toList), ("c".toList, .arr [])],
       .obj [("t".toList, .str "B".toList), ("c".toList, .arr [.int 1])],
       .obj [("t".toList, .str "B".toList)]] = true := by decide +kernel

open Tree De in
/-- **every inhabitant is accepted (up to leaves)**: in a program of the fragment (`deFragB`: `Tree.fragB`, distinct variant keys, field types the acceptance model reads), for every type expression `t` over its
items and every JSON value `j` with distinct keys that inhabits the tree-level TypeScript type of `t`: for all sufficient fuel the
acceptance model of serde's Deserialize gives rank 0 (accepted) or 1 (rejected for a number out of the leaf's range or a
non-one-character `char` only) — never a missing property, an unknown tag, a wrong arm, a wrong tuple length or a wrong kind of value. -/
theorem C02_members_are_accepted (cfg : Cfg) (env : Env) (hF : deFragB cfg env = true) (t : RTy) (T : Ts) (j : JVal)
    (hT : tyTs cfg env t = some T) (hok : tyOk cfg.limit t = true) (hw : wfJ j = true) (m : Member (declsOf cfg env) T j) :
    ∃ f0, ∀ f, f0 ≤ f → accTy cfg env f t j ≤ 1 :=
  accTy_good cfg env t j (gTy cfg env hF m t hT hok hw)

open Tree De in
/-- the same against declarations `D'` that the executable unfolding test accepts (the parsed REAL declarations of the program
with its `#[ts(inline)]` marks): their members are members of the tree-level declarations (`unfold_same_values`), hence accepted -/
theorem C02_real_members_are_accepted (cfg : Cfg) (env : Env) (hF : deFragB cfg env = true) (D' : Decls) (ufuel : Nat)
    (hw : wsdB (declsOf cfg env) = true) (hu : declsUnfB (declsOf cfg env) ufuel (declsOf cfg env) D' = true)
    (t : RTy) (T : Ts) (j : JVal) (hT : tyTs cfg env t = some T) (hok : tyOk cfg.limit t = true) (hwj : wfJ j = true)
    (m : Member D' T j) :
    ∃ f0, ∀ f, f0 ≤ f → accTy cfg env f t j ≤ 1 := by
  have m0 : Member (declsOf cfg env) T j :=
    (unfold_same_values (wsdB_sound _ hw) (declsUnfB_sound _ D' ufuel hu) (unf_refl _ _) j).mpr m
  exact C02_members_are_accepted cfg env hF t T j hT hok hwj m0

/-! non-vacuity: a program of the fragment (a struct with an optional field and a map, an internally tagged enum), a member, rank 0 -/
def exDeEnv : Env := [
  { isEnum := false, name := "P".toList, fields := [
      { name := some "x".toList, ty := .prim "u8" },
      { name := some "o".toList, ty := .option (.prim "String"), attr := { optional := .optional, skipSerIfNone := true } },
      { name := some "m".toList, ty := .map (.prim "u32") (.vec (.prim "bool")) }] },
  { isEnum := true, name := "E".toList, attr := { tag := some "t".toList }, variants := [
      { name := "A".toList, shape := .unit, fields := [] },
      { name := "B".toList, shape := .named, fields := [{ name := some "p".toList, ty := .named "P".toList [] }] }] },
  -- a generic enum and a struct using two instances of it
  { isEnum := true, name := "G".toList, generics := [{ name := "T".toList }], variants := [
      { name := "N".toList, shape := .unit, fields := [] },
      { name := "S".toList, shape := .tuple, fields := [{ name := none, ty := .param "T".toList }] },
      { name := "L".toList, shape := .named, fields := [{ name := some "l".toList, ty := .vec (.param "T".toList) }] }] },
  -- an enum with one `untagged` variant next to tagged ones, and an `untagged` enum
  { isEnum := true, name := "M".toList, variants := [
      { name := "T".toList, shape := .tuple, fields := [{ name := none, ty := .prim "u8" }] },
      { name := "Raw".toList, shape := .named, fields := [{ name := some "raw".toList, ty := .prim "String" }], attr := { untagged := true } }] },
  { isEnum := true, name := "X".toList, attr := { untagged := true }, variants := [
      { name := "A".toList, shape := .tuple, fields := [{ name := none, ty := .named "P".toList [] }] },
      { name := "B".toList, shape := .unit, fields := [] }] },
  { isEnum := false, name := "U".toList, fields := [
      { name := some "a".toList, ty := .named "G".toList [.prim "bool"] },
      { name := some "b".toList, ty := .named "G".toList [.named "G".toList [.named "P".toList []]] }] }]
def exDeCfg : Cfg := { ops := { isUpper := fun c => Case.isAsciiUpper c, isAlnum := fun _ => true, isNumeric := fun _ => false, strLower := id, strUpper := id } }
def exDeJ : JVal := .obj [("t".toList, .str "B".toList), ("p".toList, .obj [("x".toList, .int 7), ("m".toList, .obj [("12".toList, .arr [.bool true])])])]

example : deFragB exDeCfg exDeEnv = true := by decide +kernel
example : wfJ exDeJ = true ∧ tyOk exDeCfg.limit (.named "E".toList []) = true := by decide +kernel
#guard memberb (Tree.declsOf exDeCfg exDeEnv) 20 (.ref "E".toList []) exDeJ
#guard De.accTy exDeCfg exDeEnv 20 (.named "E".toList []) exDeJ == 0
def exDeJ2 : JVal := .obj [("a".toList, .obj [("S".toList, .bool true)]),
  ("b".toList, .obj [("L".toList, .obj [("l".toList, .arr [.str "N".toList, .obj [("S".toList, .obj [("x".toList, .int 1), ("m".toList, .obj [])])]])])])]
example : wfJ exDeJ2 = true ∧ tyOk exDeCfg.limit (.named "U".toList []) = true := by decide +kernel
#guard memberb (Tree.declsOf exDeCfg exDeEnv) 30 (.ref "U".toList []) exDeJ2
#guard De.accTy exDeCfg exDeEnv 30 (.named "U".toList []) exDeJ2 == 0
#guard De.accTy exDeCfg exDeEnv 30 (.named "M".toList []) (.obj [("raw".toList, .str "x".toList)]) == 0
#guard memberb (Tree.declsOf exDeCfg exDeEnv) 30 (.ref "M".toList []) (.obj [("raw".toList, .str "x".toList)])
#guard De.accTy exDeCfg exDeEnv 30 (.named "X".toList []) .null == 0
#guard De.accTy exDeCfg exDeEnv 30 (.named "X".toList []) (.obj [("x".toList, .int 1), ("m".toList, .obj [])]) == 0
#guard De.accTy exDeCfg exDeEnv 30 (.named "X".toList []) (.obj [("y".toList, .int 1)]) == 3
-- the instance decides: `G<bool>` does not read a number
#guard De.accTy exDeCfg exDeEnv 30 (.named "G".toList [.prim "bool"]) (.obj [("S".toList, .int 1)]) == 3
-- a wrong tag, a missing required property: rejected for their shape; `x: 300` only for the leaf
#guard De.accTy exDeCfg exDeEnv 20 (.named "E".toList []) (.obj [("t".toList, .str "C".toList)]) == 3
#guard De.accTy exDeCfg exDeEnv 20 (.named "P".toList []) (.obj [("x".toList, .int 7)]) == 3
#guard De.accTy exDeCfg exDeEnv 20 (.named "P".toList []) (.obj [("x".toList, .int 300), ("m".toList, .obj [])]) == 1

end TsRs
