#!/bin/bash
# Build the framework from files on disk only (offline): translator, Lean library + driver, Rust harnesses.
set -e
cd "$(dirname "$0")/.."
export CARGO_NET_OFFLINE=true
mkdir -p .build .scratch replays evidence
python3 tools/translate.py
(cd lean && lake build TsRsVerif driver)
python3 tools/prebuild.py
echo "setup: ok"
