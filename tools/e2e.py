#!/usr/bin/env python3
"""End-to-end compiled correspondence: programs (items + probes) -> a Rust crate deriving TS/Serialize/Deserialize
-> real outputs; the same programs -> Lean driver (`prog` op) -> model outputs.  See DESIGN.md 3.3."""
import json, os, shutil, hashlib
import vlib

RULE_STR = {"Lower": "lowercase", "Upper": "UPPERCASE", "Camel": "camelCase", "Snake": "snake_case", "Pascal": "PascalCase",
            "ScreamingSnake": "SCREAMING_SNAKE_CASE", "Kebab": "kebab-case", "ScreamingKebab": "SCREAMING-KEBAB-CASE"}

PRIM_PATH = {"NonZeroU8": "std::num::NonZeroU8", "NonZeroI8": "std::num::NonZeroI8", "NonZeroU16": "std::num::NonZeroU16",
             "NonZeroI16": "std::num::NonZeroI16", "NonZeroU32": "std::num::NonZeroU32", "NonZeroI32": "std::num::NonZeroI32",
             "NonZeroU64": "std::num::NonZeroU64", "NonZeroI64": "std::num::NonZeroI64", "NonZeroU128": "std::num::NonZeroU128",
             "NonZeroI128": "std::num::NonZeroI128", "NonZeroUsize": "std::num::NonZeroUsize", "NonZeroIsize": "std::num::NonZeroIsize",
             "Path": "std::path::Path", "PathBuf": "std::path::PathBuf", "Ipv4Addr": "std::net::Ipv4Addr", "Ipv6Addr": "std::net::Ipv6Addr",
             "IpAddr": "std::net::IpAddr", "SocketAddrV4": "std::net::SocketAddrV4", "SocketAddrV6": "std::net::SocketAddrV6",
             "SocketAddr": "std::net::SocketAddr"}
WRAP = {"box": "Box<{}>", "arc": "std::sync::Arc<{}>", "rc": "std::rc::Rc<{}>", "cow": "std::borrow::Cow<'static, {}>", "cell": "std::cell::Cell<{}>",
        "refcell": "std::cell::RefCell<{}>", "mutex": "std::sync::Mutex<{}>", "rwlock": "std::sync::RwLock<{}>", "weak": "std::sync::Weak<{}>",
        "phantom": "std::marker::PhantomData<{}>", "ref": "&'static {}"}


def rs_str(s):
    out = '"'
    for ch in s:
        if ch == '"': out += '\\"'
        elif ch == '\\': out += '\\\\'
        elif ch == '\n': out += '\\n'
        elif ch == '\r': out += '\\r'
        elif ch == '\t': out += '\\t'
        elif ord(ch) < 32: out += '\\x%02x' % ord(ch)
        else: out += ch
    return out + '"'


def ty_rs(t):
    if t.get("alias"):
        return t["alias"]
    k = t["k"]
    if k == "prim": return PRIM_PATH.get(t["r"], t["r"])
    if k == "option": return f"Option<{ty_rs(t['t'])}>"
    if k == "vec": return f"Vec<{ty_rs(t['t'])}>"
    if k == "slice": return f"[{ty_rs(t['t'])}]"
    if k == "set": return f"std::collections::{t.get('impl', 'BTreeSet')}<{ty_rs(t['t'])}>"
    if k == "arr": return f"[{ty_rs(t['t'])}; {t['n']}]"
    if k == "tuple": return "(" + "".join(ty_rs(x) + ", " for x in t["ts"]) + ")"
    if k == "map": return f"std::collections::{t.get('impl', 'BTreeMap')}<{ty_rs(t['a'])}, {ty_rs(t['b'])}>"
    if k == "result": return f"Result<{ty_rs(t['a'])}, {ty_rs(t['b'])}>"
    if k == "range": return f"std::ops::{t.get('impl', 'Range')}<{ty_rs(t['t'])}>"
    if k == "wrap": return WRAP[t["w"]].format(ty_rs(t["t"]))
    if k == "named":
        args = [ty_rs(a) for a in t["args"]]
        for pos, val in sorted(t.get("cargs", [])):      # const generic arguments, at their positions in the parameter list
            args.insert(pos, "{ " + str(val) + " }")
        return t["id"] + ("<" + ", ".join(args) + ">" if args else "")
    if k == "param": return t["n"]
    raise ValueError(k)


def subst(t, sigma):
    k = t["k"]
    if k == "param": return sigma.get(t["n"], t)
    r = dict(t)
    for key in ("t", "a", "b"):
        if key in r and isinstance(r[key], dict): r[key] = subst(r[key], sigma)
    if "ts" in r: r["ts"] = [subst(x, sigma) for x in r["ts"]]
    if "args" in r: r["args"] = [subst(x, sigma) for x in r["args"]]
    return r


def val_rs(t, v, items):
    """Rust expression of type t for value v"""
    k, vk = t["k"], v["k"]
    if k == "prim":
        r = t["r"]
        if vk == "int":
            if r.startswith("NonZero"):
                return f"{PRIM_PATH[r]}::new({v['i']}).unwrap()"
            if r in ("f32", "f64"): return f"{v['i']}.0{r}"
            return f"{v['i']}{r}" if not v["i"].startswith("-") else f"({v['i']}{r})"
        if vk == "float": return f"{v['r']}{r}"
        if vk == "nan": return f"{r}::NAN"
        if vk == "bool": return "true" if v["b"] else "false"
        if vk == "char": return "'" + ("\\'" if v["c"] == "'" else "\\\\" if v["c"] == "\\" else "\\n" if v["c"] == "\n" else v["c"]) + "'"
        if vk == "str":
            if r == "String": return rs_str(v["s"]) + ".to_string()"
            if r == "str": return rs_str(v["s"])
            if r == "PathBuf": return f"std::path::PathBuf::from({rs_str(v['s'])})"
            if r == "Path": return f"std::path::Path::new({rs_str(v['s'])})"
            return f"{rs_str(v['s'])}.parse::<{PRIM_PATH.get(r, r)}>().unwrap()"
        if vk == "unit": return "()"
    if k == "option": return "None" if vk == "none" else f"Some({val_rs(t['t'], v['v'], items)})"
    if k == "vec": return "vec![" + ", ".join(val_rs(t["t"], x, items) for x in v["vs"]) + "]"
    if k == "set": return f"std::collections::{t.get('impl', 'BTreeSet')}::from([" + ", ".join(val_rs(t["t"], x, items) for x in v["vs"]) + "])"
    if k == "arr": return "[" + ", ".join(val_rs(t["t"], x, items) for x in v["vs"]) + "]"
    if k == "tuple": return "(" + "".join(val_rs(a, x, items) + ", " for a, x in zip(t["ts"], v["vs"])) + ")"
    if k == "map": return f"std::collections::{t.get('impl', 'BTreeMap')}::from([" + ", ".join(f"({val_rs(t['a'], a, items)}, {val_rs(t['b'], b, items)})" for a, b in v["kvs"]) + "])"
    if k == "result": return f"Ok({val_rs(t['a'], v['v'], items)})" if vk == "ok" else f"Err({val_rs(t['b'], v['v'], items)})"
    if k == "range":
        op = "..=" if t.get("impl") == "RangeInclusive" else ".."
        return f"({val_rs(t['t'], v['a'], items)}{op}{val_rs(t['t'], v['b'], items)})"
    if k == "wrap":
        w = t["w"]
        if w == "phantom": return "std::marker::PhantomData"
        if w == "weak":
            if vk == "weak_dead": return "std::sync::Weak::new()"
            return "{ let a = std::sync::Arc::new(" + val_rs(t["t"], v, items) + "); let w = std::sync::Arc::downgrade(&a); std::mem::forget(a); w }"
        inner = val_rs(t["t"], v, items)
        return {"box": f"Box::new({inner})", "arc": f"std::sync::Arc::new({inner})", "rc": f"std::rc::Rc::new({inner})",
                "cow": f"std::borrow::Cow::Owned({inner})", "cell": f"std::cell::Cell::new({inner})", "refcell": f"std::cell::RefCell::new({inner})",
                "mutex": f"std::sync::Mutex::new({inner})", "rwlock": f"std::sync::RwLock::new({inner})",
                "ref": f"(&*Box::leak(Box::new({inner})))"}[w]
    if k == "named":
        it = items[t["id"]]
        sigma = {g["name"]: a for g, a in zip(it.get("generics", []), t["args"])}
        if it["kind"] == "struct":
            return body_rs(t["id"], it["shape"], it["fields"], v["vs"], sigma, items)
        var = it["variants"][v["i"]]
        return body_rs(f"{t['id']}::{var['name']}", var["shape"], var["fields"], v["vs"], sigma, items)
    raise ValueError((k, vk))


def body_rs(path, shape, fields, vals, sigma, items):
    if shape == "unit": return path
    if shape == "named":
        return path + " { " + ", ".join(f"{f['name']}: {val_rs(subst(f['ty'], sigma), x, items)}" for f, x in zip(fields, vals)) + " }"
    return path + "(" + ", ".join(val_rs(subst(f["ty"], sigma), x, items) for f, x in zip(fields, vals)) + ")"


def attr_list(kind, pairs):
    pairs = [p for p in pairs if p]
    return f"#[{kind}({', '.join(pairs)})] " if pairs else ""


def docs_rs(docs):
    return "".join(f"#[doc = {rs_str(d)}] " for d in docs or [])


def field_rs(f, serde_on=True):
    a = f.get("attrs", {})
    S = [a.get("rename") is not None and a.get("rename_via", "serde") == "serde" and f'rename = {rs_str(a["rename"])}',
         a.get("skip") and a.get("skip_via", "serde") == "serde" and "skip", a.get("flatten") and a.get("flatten_via", "serde") == "serde" and "flatten",
         a.get("default") and "default", a.get("skip_ser_if_none") and 'skip_serializing_if = "Option::is_none"']
    T = [a.get("rename") is not None and a.get("rename_via") == "ts" and f'rename = {rs_str(a["rename"])}',
         a.get("skip") and a.get("skip_via") == "ts" and "skip", a.get("flatten") and a.get("flatten_via") == "ts" and "flatten",
         a.get("inline") and "inline", a.get("optional") == "optional" and "optional", a.get("optional") == "nullable" and "optional = nullable",
         a.get("as") is not None and f'as = {rs_str(a.get("as_src") or ty_rs(a["as"]))}', a.get("type") is not None and f'type = {rs_str(a["type"])}']
    s = docs_rs(a.get("docs")) + (attr_list("serde", S) if serde_on else "") + attr_list("ts", T)
    return s + (f"{f['name']}: " if f.get("name") else "") + ty_rs(f["ty"])


def fields_rs(shape, fields, serde_on=True):
    if shape == "unit": return ""
    if shape == "named": return " { " + ", ".join(field_rs(f, serde_on) for f in fields) + " }"
    return "(" + ", ".join(field_rs(f, serde_on) for f in fields) + ")"


def item_rs(it):
    a = it.get("attrs", {})
    serde_on = it.get("serde", True)
    derives = ["ts_rs::TS"] + (["serde::Serialize"] if serde_on else []) + (["serde::Deserialize"] if it.get("de") and serde_on else []) + it.get("extra_derives", [])
    S = [a.get("rename") is not None and f'rename = {rs_str(a["rename"])}', a.get("rename_all") and f'rename_all = "{RULE_STR[a["rename_all"]]}"',
         a.get("rename_all_fields") and f'rename_all_fields = "{RULE_STR[a["rename_all_fields"]]}"', a.get("tag") is not None and f'tag = {rs_str(a["tag"])}',
         a.get("content") is not None and f'content = {rs_str(a["content"])}', a.get("untagged") and "untagged"]
    T = [a.get("export_to") is not None and f'export_to = {rs_str(a["export_to"])}', a.get("as") is not None and f'as = {rs_str(ty_rs(a["as"]))}',
         a.get("type") is not None and f'type = {rs_str(a["type"])}',
         a.get("concrete") and not a.get("concrete_split") and "concrete(" + ", ".join(f"{c['name']} = {ty_rs(c['ty'])}" for c in a["concrete"]) + ")",
         a.get("optional_fields") == "optional" and "optional_fields", a.get("optional_fields") == "nullable" and "optional_fields = nullable"]
    # bare-word serde keys ts-rs does not support, written FIRST in the list (they must not disturb the keys after them)
    S = [w for w in a.get("serde_bare_first", [])] + S
    if not serde_on:
        T = [x for x in S if x not in a.get("serde_bare_first", [])] + T
        S = []
    gens = it.get("generics", [])
    gl = [p["name"] + (f" = {ty_rs(p['default'])}" if p.get("default") else "") for p in gens]
    for c in sorted(it.get("cgen", []), key=lambda c: c["pos"]):     # const generic parameters (the model has type parameters only)
        gl.insert(c["pos"], f"const {c['name']}: {c['ty']}" + (f" = {c['default']}" if c.get("default") is not None else ""))
    g = "<" + ", ".join(gl) + ">" if gl else ""
    head = docs_rs(a.get("docs")) + f"#[derive({', '.join(derives)})] " + attr_list("serde", S) + attr_list("ts", T)
    if a.get("concrete") and a.get("concrete_split"):
        # one `#[ts(concrete(..))]` attribute per concretised parameter (the lists of several attributes accumulate)
        head += "".join(f"#[ts(concrete({c['name']} = {ty_rs(c['ty'])}))] " for c in a["concrete"])
    if it["kind"] == "struct" and it.get("via_macro") and it["shape"] == "named":
        # field types reach the derive as `$t:ty` fragments (Type::Group); explicit `T: TS` bounds are required then
        gb = "<" + ", ".join(p["name"] + ": ts_rs::TS" + (f" = {ty_rs(p['default'])}" if p.get("default") else "") for p in gens) + ">" if gens else ""
        params = ", ".join(f"$t{i}:ty" for i in range(len(it["fields"])))
        flds = ", ".join(field_rs(dict(f, ty={"k": "param", "n": f"$t{i}"}), serde_on) for i, f in enumerate(it["fields"]))
        args = ", ".join(ty_rs(f["ty"]) for f in it["fields"])
        return (f"macro_rules! m_{it['name']} {{ ({params}) => {{ {head}pub struct {it['name']}{gb} {{ {flds} }} }} }} "
                f"m_{it['name']}!({args});")
    if it["kind"] == "struct":
        body = fields_rs(it["shape"], it["fields"], serde_on)
        return head + f"pub struct {it['name']}{g}{body}" + ("" if it["shape"] == "named" else ";")
    vs = []
    for v in it["variants"]:
        va = v.get("attrs", {})
        VS = [va.get("rename") is not None and f'rename = {rs_str(va["rename"])}', va.get("rename_all") and f'rename_all = "{RULE_STR[va["rename_all"]]}"',
              va.get("skip") and "skip", va.get("untagged") and "untagged"]
        VT = [va.get("inline") and "inline", va.get("as") is not None and f'as = {rs_str(ty_rs(va["as"]))}', va.get("type") is not None and f'type = {rs_str(va["type"])}']
        if not serde_on:
            VT = VS + VT
            VS = []
        vs.append(docs_rs(va.get("docs")) + attr_list("serde", VS) + attr_list("ts", VT) + v["name"] + fields_rs(v["shape"], v["fields"], serde_on))
    return head + f"pub enum {it['name']}{g} {{ " + ", ".join(vs) + " }"


PRELUDE = '''#![allow(dead_code, unused_imports, non_snake_case, non_camel_case_types, non_upper_case_globals, unused_variables, unused_mut,
         uncommon_codepoints, confusable_idents, mixed_script_confusables, clippy::all)]
use std::panic::{catch_unwind, AssertUnwindSafe};
use serde_json::{json, Value};
use ts_rs::{TypeVisitor, TS};

fn r(f: impl FnOnce() -> String) -> Value {
    match catch_unwind(AssertUnwindSafe(f)) { Ok(s) => json!({"ok": s}), Err(_) => json!({"panic": true}) }
}
struct GV(Vec<Value>);
impl TypeVisitor for GV {
    fn visit<T: TS + 'static + ?Sized>(&mut self) {
        if let Some(p) = T::output_path() { self.0.push(json!([T::ident(), p.to_string_lossy()])); }
    }
}
fn probe<T: TS + 'static + ?Sized>(values: Vec<Option<String>>, is_item: bool) -> Value {
    let deps: Vec<Value> = T::dependencies().iter().map(|d| json!([d.ts_name, d.output_path.to_string_lossy()])).collect();
    let mut g = GV(vec![]);
    T::visit_generics(&mut g);
    let mut o = json!({"name": r(|| T::name()), "inline": r(|| T::inline()), "inline_flattened": r(|| T::inline_flattened()),
        "deps": deps, "generics": g.0, "values": values, "output_path": T::output_path().map(|p| p.to_string_lossy().into_owned())});
    if is_item {
        o["ident"] = json!(T::ident());
        o["decl"] = r(|| T::decl());
        o["decl_concrete"] = r(|| T::decl_concrete());
        o["docs"] = json!(T::DOCS);
        o["export_to_string"] = match catch_unwind(|| T::export_to_string()) {
            Ok(Ok(s)) => json!({"ok": s}),
            Ok(Err(ts_rs::ExportError::CannotBeExported(_))) => json!({"err": "CannotBeExported"}),
            Ok(Err(_)) => json!({"err": "Io"}),
            Err(_) => json!({"panic": true}),
        };
    }
    o
}
fn export_one<T: TS + 'static + ?Sized>(dir: &std::path::Path, how: &str) -> Value {
    let r = catch_unwind(AssertUnwindSafe(|| {
        if how == "env" {
            std::env::set_var("TS_RS_EXPORT_DIR", dir);
            let r = T::export_all();
            std::env::remove_var("TS_RS_EXPORT_DIR");
            r
        } else if how == "export" {
            std::env::set_var("TS_RS_EXPORT_DIR", dir);
            let r = T::export();
            std::env::remove_var("TS_RS_EXPORT_DIR");
            r
        } else {
            T::export_all_to(dir)
        }
    }));
    match r { Ok(Ok(())) => json!("ok"), Ok(Err(_)) => json!("err"), Err(_) => json!("panic") }
}
fn ser<T: serde::Serialize>(v: T) -> Option<String> { serde_json::to_string(&v).ok() }
fn de<T: serde::de::DeserializeOwned + serde::Serialize>(j: &str) -> Value {
    match serde_json::from_str::<T>(j) { Ok(v) => json!({"ok": serde_json::to_string(&v).ok()}), Err(e) => json!({"err": e.to_string()}) }
}
'''


def mentioned_ids(x, acc):
    if isinstance(x, dict):
        if x.get("k") == "named" and "id" in x:
            acc.add(x["id"])
        for v in x.values():
            mentioned_ids(v, acc)
    elif isinstance(x, list):
        for v in x:
            mentioned_ids(v, acc)
    return acc


def mixed_alone(prog, pi):
    """export entry "mixed": the probes exported alone before the last item is exported with its dependencies: every second item among
    those the last item refers to (transitively, by a syntactic over-approximation; the judge re-checks against the real dependencies)"""
    named = [pr for pr in prog["probes"] if pr["ty"]["k"] == "named"]
    if not named:
        return []
    items = {it["name"]: it for it in prog["items"]}
    reach, todo = set(), [named[-1]["ty"]["id"]]
    while todo:
        n = todo.pop()
        if n in reach or n not in items:
            continue
        reach.add(n)
        todo += list(mentioned_ids(items[n], set()))
    cands = [pr for pr in named[:-1] if pr["ty"]["id"] in reach]
    return [pr for qi, pr in enumerate(cands) if (qi + pi) % 2 == 1]


def render_crate(programs):
    """programs: list of {items:[..], probes:[{ty, values, de?}]}"""
    L = [PRELUDE]
    main = ["fn main() {", "  std::panic::set_hook(Box::new(|_| {}));",
            "  let args: Vec<String> = std::env::args().collect();",
            "  if args.len() > 1 && args[1] == \"de\" { de_main(); return; }",
            "  if args.len() > 3 && args[1] == \"export\" { export_main(&args[2], &args[3]); return; }",
            "  let mut out = std::io::BufWriter::new(std::io::stdout());", "  use std::io::Write;"]
    de_arms = []
    for pi, prog in enumerate(programs):
        items = {it["name"]: it for it in prog["items"]}
        L.append(f"mod p{pi} {{ use super::*;")
        for al in prog.get("aliases", []):
            L.append(f"  pub type {al['name']} = {ty_rs(al['ty'])};")
        for it in prog["items"]:
            L.append("  " + item_rs(it))
        L.append("  pub fn run() -> Vec<Value> { let mut v = Vec::new();")
        for qi, pr in enumerate(prog["probes"]):
            t = pr["ty"]
            is_item = t["k"] == "named"
            vals = []
            for v in pr.get("values", []):
                vals.append("{ let v: " + ty_rs(t) + " = " + val_rs(t, v, items) + "; ser(&v) }" if pr.get("serde", True) else "None")
            L.append(f"    v.push(probe::<{ty_rs(t)}>(vec![{', '.join(vals)}], {'true' if is_item else 'false'}));")
            if pr.get("de"):
                de_arms.append(f'    ({pi}, {qi}) => p{pi}::de_{qi}(j),')
        L.append("    v }")
        L.append("  pub fn export(dir: &std::path::Path, how: &str) -> Vec<Value> { let mut v = Vec::new();")
        # "mixed": every second item the LAST item (statically) refers to is first exported ALONE (`TS::export`, no dependencies),
        # then the last item with its dependencies
        named = [pr for pr in prog["probes"] if pr["ty"]["k"] == "named"]
        L.append('    if how == "mixed" {')
        for pr in mixed_alone(prog, pi):
            L.append(f"      let _ = export_one::<{ty_rs(pr['ty'])}>(dir, \"export\");")
        if named:
            L.append(f"      v.push(export_one::<{ty_rs(named[-1]['ty'])}>(dir, \"env\"));")
        L.append('      return v;')
        L.append('    }')
        for qi, pr in enumerate(prog["probes"]):
            if pr["ty"]["k"] == "named":
                L.append(f"    v.push(export_one::<{ty_rs(pr['ty'])}>(dir, how));")
        L.append("    v }")
        for qi, pr in enumerate(prog["probes"]):
            if pr.get("de"):
                L.append(f"  pub fn de_{qi}(j: &str) -> Value {{ de::<{ty_rs(pr['ty'])}>(j) }}")
        L.append("}")
        main.append(f'  writeln!(out, "{{}}", json!({{"probes": p{pi}::run()}})).unwrap();')
    main.append("}")
    L += main
    L.append("fn export_main(dir: &str, how: &str) {")
    L.append("  use std::io::Write; let mut out = std::io::BufWriter::new(std::io::stdout());")
    for pi, prog in enumerate(programs):
        L.append(f'  {{ let d = std::path::Path::new(dir).join("p{pi}"); let r = p{pi}::export(&d, how); writeln!(out, "{{}}", json!(r)).unwrap(); }}')
    L.append("}")
    L.append('''fn de_main() {
  use std::io::{BufRead, Write};
  let mut out = std::io::BufWriter::new(std::io::stdout());
  for line in std::io::stdin().lock().lines() {
    let line = line.unwrap();
    let v: Value = serde_json::from_str(&line).unwrap();
    let (p, q, j) = (v[0].as_u64().unwrap(), v[1].as_u64().unwrap(), v[2].as_str().unwrap());
    let r = match catch_unwind(AssertUnwindSafe(|| de_dispatch(p, q, j))) { Ok(r) => r, Err(_) => json!({"panic": true}) };
    writeln!(out, "{}", r).unwrap();
  }
}
fn de_dispatch(p: u64, q: u64, j: &str) -> Value {
  match (p, q) {
''' + "\n".join(de_arms) + '''
    _ => json!({"no_de": true}),
  }
}''')
    return "\n".join(L) + "\n"


def target_dir():
    """one cargo target directory for all generated crates: ts-rs, serde and serde_json are compiled once per feature set"""
    return os.path.join(vlib.BUILD, "e2e-target")


def build_and_run(ctx, tag, programs, features=(), env_extra=None, de_queries=None, no_default=False):
    """returns (per-program outputs [list of probe dicts], de_results or None), or (None, None) if the crate does not build"""
    d = os.path.join(vlib.BUILD, f"e2e-{tag}")
    os.makedirs(os.path.join(d, "src"), exist_ok=True)
    os.makedirs(os.path.join(d, ".cargo"), exist_ok=True)
    shutil.copy(os.path.join(vlib.REPO, "Cargo.lock"), os.path.join(d, "Cargo.lock"))
    open(os.path.join(d, ".cargo", "config.toml"), "w").write("[net]\noffline = true\n")
    feats = ", ".join(f'"{f}"' for f in features)
    toml = f'''[package]
name = "e2e-{tag}"
version = "0.1.0"
edition = "2021"
[workspace]
[dependencies]
ts-rs = {{ path = "{vlib.REPO}/ts-rs", features = [{feats}]{', default-features = false' if no_default else ''} }}
serde = {{ version = "1", features = ["derive", "rc"] }}
serde_json = "1"
[profile.dev]
debug = false
'''
    p = os.path.join(d, "Cargo.toml")
    if not os.path.exists(p) or open(p).read() != toml:
        open(p, "w").write(toml)
    src = render_crate(programs)
    p = os.path.join(d, "src", "main.rs")
    if not os.path.exists(p) or open(p).read() != src:
        open(p, "w").write(src)
    env = vlib.cargo_env()
    env["CARGO_TARGET_DIR"] = target_dir()
    if env_extra:
        env.update(env_extra)
    rc, out = vlib.sh(["cargo", "build", "--offline", "--quiet"], cwd=d, env=env, timeout=6000)
    if rc != 0:
        errs = [l for l in out.split("\n") if l.startswith("error")][:5]
        ctx.log(f"e2e-{tag} build failed:\n" + out[-4000:])
        ctx.broken.append(f"compiled corpus e2e-{tag} does not build: " + " | ".join(errs)[:600])
        return None, None
    binary = os.path.join(target_dir(), "debug", f"e2e-{tag}")
    cwd = os.path.join(vlib.SCRATCH, f"e2e-{tag}")
    os.makedirs(cwd, exist_ok=True)
    import subprocess
    pr = subprocess.run([binary], cwd=cwd, env=env, stdout=subprocess.PIPE, stderr=subprocess.PIPE, text=True, timeout=3000)
    outs = [json.loads(l)["probes"] for l in pr.stdout.split("\n") if l.startswith("{")]
    if len(outs) != len(programs):
        ctx.broken.append(f"compiled corpus e2e-{tag}: got {len(outs)} of {len(programs)} program outputs: {pr.stderr[-300:]}")
        return None, None
    de_res = None
    if de_queries:
        inp = "\n".join(json.dumps(q) for q in de_queries) + "\n"
        pr = subprocess.run([binary, "de"], cwd=cwd, env=env, input=inp, stdout=subprocess.PIPE, stderr=subprocess.PIPE, text=True, timeout=3000)
        de_res = [json.loads(l) for l in pr.stdout.split("\n") if l.strip()]
    return outs, de_res


def run_model_programs(programs, chars, cwd, esm=False, out_dir="./bindings"):
    lines = [chars] + [{"op": "prog", "items": p["items"], "probes": p["probes"], "cwd": cwd, "esm": esm, "out_dir": out_dir} for p in programs]
    res = vlib.run_model(lines)
    if res is None:
        return None
    return [r["probes"] for r in res[1:]]


def jnorm(s):
    """parse a JSON text keeping the int/float distinction and key order"""
    if s is None:
        return None
    return json.loads(s, parse_float=lambda x: ("F", x), parse_int=lambda x: ("I", x), object_pairs_hook=lambda kv: ("O", kv))


def run_de(ctx, tag, queries):
    """feed [program index, probe index, json text] triples to the compiled corpus binary's Deserialize dispatch"""
    import subprocess
    d = os.path.join(vlib.BUILD, f"e2e-{tag}")
    binary = os.path.join(target_dir(), "debug", f"e2e-{tag}")
    cwd = os.path.join(vlib.SCRATCH, f"e2e-{tag}")
    inp = "\n".join(json.dumps(q) for q in queries) + "\n"
    pr = subprocess.run([binary, "de"], cwd=cwd, input=inp, stdout=subprocess.PIPE, stderr=subprocess.PIPE, text=True, timeout=3000)
    res = [json.loads(l) for l in pr.stdout.split("\n") if l.strip()]
    if len(res) != len(queries):
        raise RuntimeError(f"de dispatch answered {len(res)} of {len(queries)}: {pr.stderr[-300:]}")
    return res


def run_export(ctx, tag, how, out_dir, env_extra=None, clean=True):
    """run the compiled corpus binary in export mode; returns (per-program step results, {program index: {rel path: text}})"""
    import subprocess
    d = os.path.join(vlib.BUILD, f"e2e-{tag}")
    binary = os.path.join(target_dir(), "debug", f"e2e-{tag}")
    if clean:
        shutil.rmtree(out_dir, ignore_errors=True)
    os.makedirs(out_dir, exist_ok=True)
    env = vlib.cargo_env()
    if env_extra:
        env.update(env_extra)
    pr = subprocess.run([binary, "export", out_dir, how], cwd=out_dir, env=env, stdout=subprocess.PIPE, stderr=subprocess.PIPE, text=True, timeout=3000)
    res = [json.loads(l) for l in pr.stdout.split("\n") if l.strip()]
    trees = {}
    for root, _, files in os.walk(out_dir):
        for fn in files:
            p = os.path.join(root, fn)
            rel = os.path.relpath(p, out_dir)
            top, _, rest = rel.partition(os.sep)
            trees.setdefault(top, {})[rest] = open(p, encoding="utf-8", errors="replace").read()
    return res, trees
