#!/usr/bin/env python3
"""Shared machinery for the per-property checks (see DESIGN.md section 3.4).

A check = (1) translator + `lake build` of the property's theorems + axiom audit,
          (2) correspondence: model (Lean driver) vs implementation (Rust harness) on the same cases,
          (3) oracle: the property's own predicate evaluated on the implementation's outputs,
          (4) evidence + verdict.
"""
import hashlib, json, os, random, re, shutil, subprocess, sys, time

VERIF = os.path.dirname(os.path.dirname(os.path.abspath(__file__)))
REPO = os.environ.get("TSRS_REPO", "/repo")
LEAN = os.path.join(VERIF, "lean")
BUILD = os.path.join(VERIF, ".build")
SCRATCH = os.path.join(VERIF, ".scratch")
REPLAYS = os.path.join(VERIF, "replays")
EVIDENCE = os.path.join(VERIF, "evidence")
ALLOWED_AXIOMS = {"propext", "Classical.choice", "Quot.sound"}
ENV = dict(os.environ, CARGO_NET_OFFLINE="true")

TRUSTED_BASE = [
    "Lean 4.33.0 kernel (thorough tier: re-checked by leanchecker)",
    "axioms: subset of {propext, Classical.choice, Quot.sound}; no sorry/admit/native_decide/bv_decide/own axioms (scanned + #print axioms on every theorem of the property)",
    "hand-written model files lean/TsRsVerif/Model/*.lean: tied to /repo by the correspondence streams of this run (sampling, counted below), not by proof",
    "tools/translate.py (tables regenerated from /repo sources), the Rust harnesses under harness/, tools/*.py",
]


def sh(cmd, cwd=None, env=None, timeout=None, input=None):
    p = subprocess.run(cmd, cwd=cwd, env=env or ENV, stdout=subprocess.PIPE, stderr=subprocess.STDOUT,
                       timeout=timeout, input=input, text=True, shell=isinstance(cmd, str))
    return p.returncode, p.stdout


class Ctx:
    def __init__(self, pid, tier, seed):
        self.pid, self.tier, self.seed = pid, tier, seed
        self.t0 = time.time()
        self.rng = random.Random(seed)
        self.violations = []        # list of (replay_path, no_input_found: bool)
        self.known_lines = []
        self.broken = []            # names of theorems / streams that no longer check
        self.cov = {"evaluations": 0, "distinct_nontrivial": 0, "samples": [], "streams": {}}
        self.assumptions = []
        self.notes = []
        os.makedirs(SCRATCH, exist_ok=True)
        os.makedirs(REPLAYS, exist_ok=True)
        os.makedirs(EVIDENCE, exist_ok=True)
        self.known = load_known().get(pid, [])

    @property
    def quick(self):
        return self.tier == "quick"

    def log(self, *a):
        print(f"[{self.pid} {time.time()-self.t0:6.1f}s]", *a, flush=True)

    # ---- reporting -------------------------------------------------------------------------
    def replay_path(self, obj):
        h = hashlib.sha1(json.dumps(obj, sort_keys=True, default=str).encode()).hexdigest()[:12]
        return os.path.join(REPLAYS, f"{self.pid}-{h}.json")

    def violation(self, what, case, extra=None, no_input=False):
        """Record a violation. `case` is the concrete failing input (or the broken obligation)."""
        obj = {"property": self.pid, "what": what, "case": case}
        if extra:
            obj.update(extra)
        if no_input:
            obj["no_failing_input_found"] = True
        path = self.replay_path(obj)
        with open(path, "w") as f:
            json.dump(obj, f, indent=1, default=str)
        self.violations.append((path, no_input, what))

    def known_finding(self, entry, detail):
        line = f"KNOWN-FINDING: property={self.pid} {entry['id']}: {entry['what']} [{detail}]"
        if not any(l.startswith(f"KNOWN-FINDING: property={self.pid} {entry['id']}:") for l in self.known_lines):
            self.known_lines.append(line)

    def stream(self, name, evaluations, nontrivial, rule, samples, extra=None):
        self.cov["evaluations"] += evaluations
        self.cov["distinct_nontrivial"] += nontrivial
        self.cov["streams"][name] = dict(evaluations=evaluations, distinct_nontrivial=nontrivial, rule=rule,
                                         **(extra or {}))
        for smp in samples[:3]:
            self.cov["samples"].append({"stream": name, "case": smp})

    def finish(self, level="proof", proof=None):
        """Write evidence, print verdict lines, return exit code."""
        cov = self.cov
        cov["rule"] = "; ".join(f"{k}: {v['rule']}" for k, v in cov["streams"].items())
        if proof:
            cov.update(proof)
        cov["trusted_base"] = TRUSTED_BASE + [f"assumption: {a}" for a in self.assumptions]
        cov["broken_obligations_or_streams"] = self.broken
        if level == "proof" and not cov.get("discharged"):
            # the theorems did not check in this run (broken build): nothing is claimed at level proof for it
            level = "other"
            cov["explanation"] = ("the Lean theorems of this property did NOT check in this run (see broken_obligations_or_streams): no claim at level "
                                  "`proof` is made for it; the run is reported as a violation. " + str(cov.get("explanation", "")))
        cov["known_findings_replayed"] = self.known_lines
        if not cov["samples"]:
            cov["samples"] = ["(no correspondence cases in this run)"]
        ev = {"property_id": self.pid, "tier": self.tier, "seed": self.seed, "level": level,
              "coverage": cov, "assumptions": self.assumptions, "wall_s": round(time.time() - self.t0, 2),
              "violations": len(self.violations), "notes": self.notes}
        with open(os.path.join(EVIDENCE, f"{self.pid}.json"), "w") as f:
            json.dump(ev, f, indent=1, default=str)
        for l in self.known_lines:
            print(l)
        seen = set()
        for path, no_input, what in self.violations:
            if path in seen:
                continue
            seen.add(path)
            tail = " no-failing-input-found" if no_input else ""
            print(f"VIOLATION property={self.pid} replay={path}{tail}")
            print(f"  ({what})")
        if self.violations:
            return 1
        print(f"OK property={self.pid} tier={self.tier} evaluations={cov['evaluations']} "
              f"obligations={cov.get('obligations')} wall_s={ev['wall_s']}")
        return 0


def load_known():
    p = os.path.join(VERIF, "known_findings.json")
    if not os.path.exists(p):
        return {}
    out = {}
    for e in json.load(open(p)).get("findings", []):
        if e.get("status") == "open":
            out.setdefault(e["property"], []).append(e)
    return out


# ---------------------------------------------------------------------------------------------
# Lean side
# ---------------------------------------------------------------------------------------------
_FORBIDDEN = re.compile(r"\b(sorry|admit|native_decide|bv_decide|implemented_by|unsafe)\b|^\s*axiom\s|maxHeartbeats\s+0")


def strip_lean_comments(src):
    src = re.sub(r"/-.*?-/", lambda m: "\n" * m.group(0).count("\n"), src, flags=re.S)
    return "\n".join(l.split("--")[0] for l in src.split("\n"))


def scan_forbidden():
    hits = []
    for root, _, files in os.walk(os.path.join(LEAN, "TsRsVerif")):
        for fn in files:
            if fn.endswith(".lean"):
                p = os.path.join(root, fn)
                for i, l in enumerate(strip_lean_comments(open(p).read()).split("\n"), 1):
                    if _FORBIDDEN.search(l):
                        hits.append(f"{p}:{i}: {l.strip()}")
    return hits


def translate(ctx):
    """Regenerate the tables. A section of the sources the translator cannot read any more gets a poison table (tools/translate.py):
    the theorems and ties that depend on it then fail on their own and carry the verdict; a property that does not use the table is
    not disturbed. The unreadable sections are recorded in the evidence either way."""
    rc, out = sh([sys.executable, os.path.join(VERIF, "tools", "translate.py")])
    if rc != 0:
        ctx.log("translator failed:\n" + out[-3000:])
        ctx.broken.append("translator: " + out.strip().split("\n")[-1][:300])
        return False
    try:
        st = json.load(open(os.path.join(LEAN, "TsRsVerif", "Generated", "translate_status.json")))
    except (OSError, ValueError):
        st = {"failed": []}
    ctx.untranslated = st.get("failed", [])
    for f in ctx.untranslated:
        ctx.notes.append(f"translator: could not read `{f['section']}` from the sources ({f['message']}); its table holds a poison row, so every theorem and tie "
                         "of this property that depends on it fails below — if nothing fails, this property does not depend on it")
    return True


def theorems_of(pid):
    p = os.path.join(LEAN, "TsRsVerif", "Props", f"{pid}.lean")
    src = strip_lean_comments(open(p).read())
    ns = re.findall(r"^namespace\s+(\S+)", src, flags=re.M)
    prefix = (ns[0] + ".") if ns else ""
    names = re.findall(r"^(?:private\s+|protected\s+)?theorem\s+([^\s:({\[]+)", src, flags=re.M)
    return [prefix + n for n in names]


def lean_check(ctx, extra_modules=()):
    """Build the property's theorem module (+ driver) against freshly generated tables and audit axioms.
    Returns the proof-coverage dict. Any failure is recorded in ctx.broken (not yet a verdict)."""
    pid = ctx.pid
    ok_tr = translate(ctx)
    mod = f"TsRsVerif.Props.{pid}"
    t = time.time()
    rc, out = sh(["lake", "build", mod, "driver", *extra_modules], cwd=LEAN, timeout=3000)
    build_ok = rc == 0
    if not build_ok:
        errs = [l for l in out.split("\n") if "error" in l][:8]
        ctx.log("lake build failed:\n" + "\n".join(errs))
        # which theorems are affected: names mentioned in / around the error lines
        ctx.broken.append(f"lake build {mod}: " + " | ".join(e.strip()[:200] for e in errs[:3]))
    thms = theorems_of(pid)
    discharged, axioms_used, bad = 0, {}, []
    if build_ok:
        os.makedirs(os.path.join(BUILD, "audit"), exist_ok=True)
        af = os.path.join(BUILD, "audit", f"{pid}.lean")
        with open(af, "w") as f:
            f.write(f"import {mod}\n" + "".join(f"#print axioms {n}\n" for n in thms))
        rc, out = sh(["lake", "env", "lean", af], cwd=LEAN, timeout=600)
        for m in re.finditer(r"'([^']+)' (does not depend on any axioms|depends on axioms: \[([^\]]*)\])", out):
            name = m.group(1)
            axs = [a.strip() for a in (m.group(3) or "").replace("\n", " ").split(",") if a.strip()]
            axioms_used[name] = axs
            if set(axs) <= ALLOWED_AXIOMS:
                discharged += 1
            else:
                bad.append(f"{name}: {axs}")
        missing = [n for n in thms if n not in axioms_used]
        if rc != 0 or missing:
            ctx.broken.append(f"axiom audit failed for {missing[:5]}: {out[-300:]}")
        for b in bad:
            ctx.broken.append("non-standard axioms: " + b)
    hits = scan_forbidden()
    for h in hits:
        ctx.broken.append("forbidden construct: " + h)
    leanchecker = None
    if build_ok and not ctx.quick:
        rc, out = sh(["lake", "env", "leanchecker", mod], cwd=LEAN, timeout=3000)
        leanchecker = "ok" if rc == 0 else "FAILED: " + out[-300:]
        if rc != 0:
            ctx.broken.append("leanchecker " + mod + ": " + out[-200:])
    return {
        "obligations": len(thms), "discharged": discharged,
        "checker_cmd": f"cd lean && lake build {mod} driver && lake env lean .build/audit/{pid}.lean  (#print axioms of every theorem)"
                       + ("" if ctx.quick else f" && lake env leanchecker {mod}"),
        "theorems": {n: axioms_used.get(n, "NOT CHECKED") for n in thms},
        "lean_build_s": round(time.time() - t, 1), "leanchecker": leanchecker,
        "tables_digest": digest_file(os.path.join(LEAN, "TsRsVerif", "Generated", "Tables.lean")),
    }


def digest_file(p):
    try:
        return hashlib.sha1(open(p, "rb").read()).hexdigest()[:16]
    except OSError:
        return None


DRIVER = os.path.join(LEAN, ".lake", "build", "bin", "driver")


def run_model(lines, timeout=3000):
    """Feed JSON-encodable cases to the Lean driver; return parsed outputs (None if the driver is unavailable)."""
    if not os.path.exists(DRIVER):
        return None
    inp = "\n".join(json.dumps(c) for c in lines) + "\n"
    p = subprocess.run([DRIVER], input=inp, stdout=subprocess.PIPE, stderr=subprocess.PIPE, text=True, timeout=timeout)
    outs = [json.loads(l) for l in p.stdout.split("\n") if l.strip()]
    if len(outs) != len(lines):
        raise RuntimeError(f"driver answered {len(outs)} of {len(lines)} lines: {p.stderr[-500:]}")
    return outs


# ---------------------------------------------------------------------------------------------
# Rust side
# ---------------------------------------------------------------------------------------------
def cargo_env(extra_rustflags=""):
    e = dict(ENV)
    e["RUSTFLAGS"] = ("--cfg ts_rs_verif " + extra_rustflags).strip()
    e["TS_RS_VERIF_MACRO_DRIVER"] = os.path.join(VERIF, "harness", "macrodrv", "driver.rs")
    e.pop("TS_RS_EXPORT_DIR", None)
    return e


def patch_repo_path(crate_dir):
    """Harness crates name /repo by absolute path; honour TSRS_REPO for scratch-worktree runs."""
    return crate_dir


def build_hookbin(ctx, esm=False):
    """(Re)build the function-level harness from /repo's working tree, hooks on."""
    crate = os.path.join(VERIF, "harness", "hookbin")
    tgt = os.path.join(BUILD, "hookbin-esm" if esm else "hookbin")
    shutil.copy(os.path.join(REPO, "Cargo.lock"), os.path.join(crate, "Cargo.lock"))
    cmd = ["cargo", "build", "--offline", "--quiet"] + (["--features", "import-esm"] if esm else [])
    env = cargo_env()
    env["CARGO_TARGET_DIR"] = tgt
    rc, out = sh(cmd, cwd=crate, env=env, timeout=3000)
    if rc != 0:
        ctx.log("hookbin build failed:\n" + out[-3000:])
        ctx.broken.append("hookbin does not build against /repo: " + out.strip().split("\n")[-1][:300])
        return None
    return os.path.join(tgt, "debug", "hookbin")


def run_real(binary, lines, timeout=3000, env=None):
    inp = "\n".join(json.dumps(c) for c in lines) + "\n"
    p = subprocess.run([binary], input=inp, stdout=subprocess.PIPE, stderr=subprocess.PIPE, text=True,
                       timeout=timeout, env=env or cargo_env(), cwd=SCRATCH)
    outs = [json.loads(l) for l in p.stdout.split("\n") if l.strip()]
    if len(outs) != len(lines):
        raise RuntimeError(f"harness answered {len(outs)} of {len(lines)} lines (rc={p.returncode}): {p.stderr[-800:]}")
    return outs


def compare(ctx, stream, cases, real, model, canon=lambda x: x):
    """Correspondence: returns list of (case, real, model) disagreements; records the broken stream."""
    if model is None:
        ctx.broken.append(f"correspondence stream {stream}: model driver unavailable")
        return []
    dis = [(c, r, m) for c, r, m in zip(cases, real, model) if canon(r) != canon(m)]
    if dis:
        c, r, m = dis[0]
        ctx.broken.append(f"correspondence stream {stream}: {len(dis)}/{len(cases)} cases differ; first: "
                          f"case={json.dumps(c)[:400]} impl={json.dumps(r)[:300]} model={json.dumps(m)[:300]}")
    return dis


def settle(ctx):
    """After oracles ran: if proofs/correspondence broke but no failing input was exhibited, report
    the broken obligation itself (no-failing-input-found)."""
    if ctx.broken and not any(not ni for _, ni, _ in ctx.violations):
        ctx.violation("proof obligation or model/code correspondence no longer checks; the violation search "
                      "found no concrete failing input", {"broken": ctx.broken}, no_input=True)


# ---------------------------------------------------------------------------------------------
# in-process macro driver (cargo test -p ts-rs-macros --lib verif_driver)
# ---------------------------------------------------------------------------------------------
def _esc(s):
    return s.replace("\\", "\\\\").replace("\t", "\\t").replace("\n", "\\n").replace("\r", "\\r")


def _unesc(s):
    out, i = [], 0
    while i < len(s):
        c = s[i]
        if c == "\\" and i + 1 < len(s):
            n = s[i + 1]
            out.append({"t": "\t", "n": "\n", "r": "\r", "\\": "\\"}.get(n, "\\" + n))
            i += 2
        else:
            out.append(c)
            i += 1
    return "".join(out)


def run_macro(ctx, cases, features=("serde-compat",), tag="default", timeout=3000):
    """cases: list of lists of strings (op, args...). Returns list of dicts {"ok":..}|{"err":..}|{"synerr":..}|{"panic":True},
    or None if the macros crate does not build with hooks on."""
    wd = os.path.join(SCRATCH, f"macro-{ctx.pid}-{tag}")
    os.makedirs(wd, exist_ok=True)
    inp, outp = os.path.join(wd, "in.tsv"), os.path.join(wd, "out.tsv")
    with open(inp, "w", encoding="utf-8") as f:
        for c in cases:
            f.write("\t".join(_esc(x) for x in c) + "\n")
    if os.path.exists(outp):
        os.remove(outp)
    env = cargo_env()
    env["CARGO_TARGET_DIR"] = os.path.join(BUILD, "macrodrv-" + ("_".join(sorted(features)) or "nofeat"))
    env["TS_RS_VERIF_IN"], env["TS_RS_VERIF_OUT"] = inp, outp
    cmd = ["cargo", "test", "--offline", "--quiet", "-p", "ts-rs-macros", "--no-default-features", "--lib"]
    if features:
        cmd += ["--features", ",".join(features)]
    cmd += ["verif_driver"]
    rc, out = sh(cmd, cwd=REPO, env=env, timeout=timeout)
    if rc != 0 or not os.path.exists(outp):
        ctx.log("macro driver failed:\n" + out[-3000:])
        ctx.broken.append("macro driver does not build/run against /repo: " + out.strip().split("\n")[-1][:300])
        return None
    res = []
    for line in open(outp, encoding="utf-8").read().split("\n"):
        if line == "":
            continue
        parts = line.split("\t")
        if parts[0] == "panic":
            res.append({"panic": True})
        else:
            res.append({parts[0]: _unesc(parts[1]) if len(parts) > 1 else ""})
    if len(res) != len(cases):
        raise RuntimeError(f"macro driver answered {len(res)} of {len(cases)}")
    return res


def build_macrodrv(ctx):
    return run_macro(ctx, [["inflect_field", "Snake", "warmUp"]], tag="warm")


def char_table(binary, alphabet):
    """Ask Rust's own char methods about the working alphabet; returns the set_chars line for the Lean driver."""
    cps = sorted({ord(c) for c in alphabet})
    rows = run_real(binary, [{"op": "chars", "cps": cps}])[0]["ok"]
    return {"op": "set_chars", "table": rows}
