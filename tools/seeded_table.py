#!/usr/bin/env python3
"""Regenerate the table of DESIGN.md §0.6 (between the markers) from seeded/*/notes.md and seeded/RESULTS.json."""
import json, os, re
ROOT = "/verif/seeded"
res = json.load(open(os.path.join(ROOT, "RESULTS.json")))
rows = []
def title(d):
    p = os.path.join(ROOT, d, "notes.md")
    if not os.path.exists(p):
        return "(see patch)"
    for line in open(p, encoding="utf-8", errors="replace"):
        line = line.strip()
        if line.startswith("#"):
            t = line.lstrip("# ").strip()
            t = re.sub(r"^(C\d\d\s*)?[Mm]utation\s*\d*\s*[-—–:]*\s*", "", t)
            t = re.sub(r"^(C\d\d\s*)?(mutation|change)\s*\d+\s*[-—–:]*\s*", "", t, flags=re.I)
            return t.replace("|", "\\|")[:110] or "(see notes.md)"
    return "(see notes.md)"
ids = sorted((d for d in os.listdir(ROOT) if os.path.isdir(os.path.join(ROOT, d))), key=lambda d: (d.split("-")[0], int(d.split("-")[1])))
for d in ids:
    r = res.get(d, {})
    rep = "not run" if not r else ("patch does not apply" if not r.get("applies") else ("yes" if r.get("exit") == 1 and not r.get("no_failing_input_found") else
          "yes (no-failing-input-found)" if r.get("exit") == 1 else "NO"))
    first = (r.get("first") or "").strip("()").replace("|", "\\|")[:110]
    rows.append(f"| {d} | {title(d)} | {'adapted' if r.get('patch') == 'patch_adapted.diff' else 'original'} | {rep} | {first} |")
table = "| id | change | patch | reported | first line of the report |\n|---|---|---|---|---|\n" + "\n".join(rows) + "\n"
p = "/verif/DESIGN.md"
s = open(p).read()
a = s.index("| id | change | patch | reported | first line of the report |")
b = s.index("\nChecks that were strengthened because a seeded change was first missed")
s = s[:a] + table + s[b:]
open(p, "w").write(s)
n = len(ids); rep = sum(1 for d in ids if res.get(d, {}).get("exit") == 1)
conc = sum(1 for d in ids if res.get(d, {}).get("exit") == 1 and not res[d].get("no_failing_input_found"))
print(f"{n} changes, {rep} reported, {conc} with a concrete failing input")
