"""C03 — exported files import exactly the names they use, from where they live."""
import json, os, posixpath
import vlib, e2e
from props import corpus, tsparse


def finding_programs():
    """the listed defect classes, one witness program each (expected to fail the closure oracle on the unchanged tree)"""
    from gen_corpus import P, N, OPT, VEC, PARAM
    leaf = lambda n: {"kind": "struct", "name": n, "shape": "named", "attrs": {}, "generics": [], "fields": [{"name": "v", "ty": P("u8"), "attrs": {}}]}
    progs = []
    # C03-zero-length-array
    progs.append(("C03-zero-length-array", {"items": [leaf("ZL"), {"kind": "struct", "name": "ZA", "shape": "named", "attrs": {}, "generics": [],
                  "fields": [{"name": "z", "ty": {"k": "arr", "t": N("ZL"), "n": 0}, "attrs": {}}]}], "probes": [{"ty": N("ZA"), "values": []}]}))
    # C03-inlined-default
    progs.append(("C03-inlined-default", {"items": [leaf("DL"), {"kind": "struct", "name": "DG", "shape": "named", "attrs": {}, "generics": [{"name": "T", "default": N("DL")}],
                  "fields": [{"name": "t", "ty": PARAM("T"), "attrs": {}}]},
                  {"kind": "struct", "name": "DU", "shape": "named", "attrs": {}, "generics": [], "fields": [{"name": "g", "ty": N("DG", P("u8")), "attrs": {"inline": True}}]}],
                  "probes": [{"ty": N("DU"), "values": []}]}))
    progs.append(("C03-inlined-default", {"items": [leaf("FL"), {"kind": "struct", "name": "FG", "shape": "named", "attrs": {}, "generics": [{"name": "T", "default": N("FL")}],
                  "fields": [{"name": "t", "ty": PARAM("T"), "attrs": {}}]},
                  {"kind": "struct", "name": "FU", "shape": "named", "attrs": {}, "generics": [], "fields": [{"name": "own", "ty": P("u8"), "attrs": {}}, {"name": "g", "ty": N("FG", P("u8")), "attrs": {"flatten": True}}]}],
                  "probes": [{"ty": N("FU"), "values": []}]}))
    # C03-tagged-newtype-inline
    progs.append(("C03-tagged-newtype-inline", {"items": [leaf("TL"), {"kind": "struct", "name": "TI", "shape": "named", "attrs": {}, "generics": [], "fields": [{"name": "d", "ty": N("TL"), "attrs": {}}]},
                  {"kind": "enum", "name": "TE", "attrs": {"tag": "t", "content": "c"}, "generics": [],
                   "variants": [{"name": "M", "shape": "tuple", "fields": [{"name": None, "ty": N("TI"), "attrs": {"inline": True}}], "attrs": {}}]}],
                  "probes": [{"ty": N("TE"), "values": []}]}))
    # C03-escaping-export-to: the escaped file imports a file inside the base directory
    progs.append(("C03-escaping-export-to", {"items": [leaf("XL"), {"kind": "struct", "name": "XE", "shape": "named", "attrs": {"export_to": "../up/"}, "generics": [],
                  "fields": [{"name": "l", "ty": N("XL"), "attrs": {}}]}], "probes": [{"ty": N("XE"), "values": []}]}))
    # C03-double-ts-extension: the importing file is `ds.ts.ts`, the dependency lives in its sibling `ds.ts`; `import_path` gives `./ds`
    # (a good specifier) and the `is_same_file` test of generate_imports, which strips `.ts` REPEATEDLY from the file name, drops it
    # (Lean: C03_cex_same_file_stem)
    sl = leaf("SL"); sl["attrs"] = {"export_to": "ds.ts"}
    progs.append(("C03-double-ts-extension", {"items": [sl, {"kind": "struct", "name": "SU", "shape": "named", "attrs": {"export_to": "ds.ts.ts"}, "generics": [],
                  "fields": [{"name": "l", "ty": N("SL"), "attrs": {}}]}], "probes": [{"ty": N("SU"), "values": []}]}))
    return progs


def check_findings(ctx):
    fps = finding_programs()
    progs = [p for _, p in fps]
    real, _ = e2e.build_and_run(ctx, "c03f", progs)
    if real is None:
        return
    base = os.path.join(vlib.SCRATCH, "c03f")
    steps, trees = e2e.run_export(ctx, "c03f", "to", os.path.join(base, "out"))
    for pi, (fid, prog) in enumerate(fps):
        tree = dict(trees.get(f"p{pi}", {}))
        for k, v in trees.get("up", {}).items():
            tree["../up/" + k] = v
        probs = tsparse.closure_problems({posixpath.normpath("base/" + k): v for k, v in tree.items() if k.endswith(".ts")})
        e = next((e for e in ctx.known if e["id"] == fid), None)
        if probs and e:
            ctx.known_finding(e, probs[0][:250])
        elif probs:
            ctx.violation("an exported directory is not closed: " + "; ".join(probs[:2]), {"items": prog["items"], "finding_class": fid}, {"files": tree})
        else:
            ctx.notes.append(f"known finding {fid} no longer reproduces on its witness")


def spelling_programs():
    """several types in ONE physical file that their `export_to` attributes spell differently, referring to each other"""
    from gen_corpus import P, N, OPT, VEC
    progs = []
    for v, spells in enumerate([["models/shared.ts", "models/v2/../shared.ts", "./models/shared.ts"], ["a/b/../all.ts", "a/all.ts", "a/./all.ts"], ["one.ts", "./one.ts", "x/../one.ts"]]):
        A = {"kind": "struct", "name": f"SpA{v}", "shape": "named", "attrs": {"export_to": spells[0]}, "generics": [], "fields": [{"name": "x", "ty": P("u8"), "attrs": {}}]}
        B = {"kind": "struct", "name": f"SpB{v}", "shape": "named", "attrs": {"export_to": spells[1]}, "generics": [],
             "fields": [{"name": "a", "ty": N(A["name"]), "attrs": {}}, {"name": "o", "ty": OPT(N(f"SpO{v}")), "attrs": {}}]}
        C = {"kind": "struct", "name": f"SpC{v}", "shape": "named", "attrs": {"export_to": spells[2]}, "generics": [],
             "fields": [{"name": "b", "ty": VEC(N(B["name"])), "attrs": {}}, {"name": "a", "ty": N(A["name"]), "attrs": {}}]}
        O = {"kind": "struct", "name": f"SpO{v}", "shape": "named", "attrs": {}, "generics": [], "fields": [{"name": "y", "ty": P("bool"), "attrs": {}}]}
        R = {"kind": "struct", "name": f"SpR{v}", "shape": "named", "attrs": {"export_to": "deep/er/"}, "generics": [],
             "fields": [{"name": "c", "ty": N(C["name"]), "attrs": {}}, {"name": "b", "ty": N(B["name"]), "attrs": {}}]}
        items = [A, B, C, O, R]
        progs.append({"items": items, "probes": [{"ty": N(it["name"]), "values": []} for it in items]})
    # the SAME FILE NAME in different directories (`index.ts`, `v2/index.ts`, `v2/deep/index.ts`, `w2/index.ts`), referring to each other upwards,
    # downwards and sideways: only the directory part of the specifier tells them apart, and none of them is "the same file"
    # (seeded change C03-19: a test that accepted any `../` prefix before the stem dropped the import of `../index`)
    def st(name, to, fields):
        return {"kind": "struct", "name": name, "shape": "named", "attrs": {"export_to": to}, "generics": [],
                "fields": [{"name": n, "ty": t, "attrs": {}} for n, t in fields] or [{"name": "x", "ty": P("u8"), "attrs": {}}]}
    items = [st("SsBase", "index.ts", []),
             st("SsExt", "v2/index.ts", [("base", N("SsBase"))]),
             st("SsDeep", "v2/deep/index.ts", [("e", N("SsExt")), ("b", N("SsBase"))]),
             st("SsSib", "w2/index.ts", [("e", N("SsExt")), ("d", OPT(N("SsDeep")))]),
             st("SsTop", "index.ts", [("s", N("SsSib")), ("b", N("SsBase"))]),
             st("SsOther", "v2/other.ts", [("e", N("SsExt")), ("t", VEC(N("SsTop")))])]
    progs.append({"items": items, "probes": [{"ty": N(it["name"]), "values": []} for it in items]})
    return progs


def mixed_ok(prog, pi, R):
    """entry "mixed" = some items exported alone (`TS::export`), then the LAST item with `export_all`. The whole directory has to be closed
    when every item exported alone is among the real dependencies of that root (then everything written belongs to the root's closure)."""
    named = [(pr, r) for pr, r in zip(prog["probes"], R) if pr["ty"]["k"] == "named"]
    if not named:
        return False
    by_ident = {r.get("ident"): r for _, r in named}
    reach, todo = set(), [named[-1][1].get("ident")]
    while todo:
        n = todo.pop()
        if n in reach or n not in by_ident:
            continue
        reach.add(n)
        todo += [d[0].split("<")[0] for d in by_ident[n].get("deps", [])] + [d[0].split("<")[0] for d in by_ident[n].get("generics", [])]
    alone = e2e.mixed_alone(prog, pi)
    ids = {id(pr): r.get("ident") for pr, r in named}
    return all(ids.get(id(pr)) in reach for pr in alone)


def check_spellings(ctx, c):
    progs = spelling_programs()
    real, _ = e2e.build_and_run(ctx, "c03s", progs)
    if real is None:
        return 0
    model = e2e.run_model_programs(progs, c.chars, os.path.join(vlib.SCRATCH, "e2e-c03s"))
    for prog, R, M in zip(progs, real, model or []):
        for pr, r, m in zip(prog["probes"], R, M):
            for k in ("export_to_string", "output_path"):
                if r.get(k) != m.get(k):
                    ctx.broken.append(f"compiled correspondence (file spellings): {pr['ty']['id']} {k}: impl={json.dumps(r.get(k))[:300]} model={json.dumps(m.get(k))[:300]}")
                    break
    n = 0
    for how in ("to", "env", "mixed"):
        steps, trees = e2e.run_export(ctx, "c03s", how, os.path.join(vlib.SCRATCH, "c03s", how))
        for pi, prog in enumerate(progs):
            n += 1
            tree = dict(trees.get(f"p{pi}", {}))
            probs = tsparse.closure_problems({posixpath.normpath("base/" + k): v for k, v in tree.items() if k.endswith(".ts")})
            if how == "mixed" and not mixed_ok(prog, pi, real[pi]):
                continue
            st = steps[pi] if pi < len(steps) else []
            if any(x != "ok" for x in st):
                probs.append(f"export returned {st}")
            if probs:
                ctx.violation("an exported directory is not closed: " + "; ".join(probs[:3]), {"items": prog["items"], "entry": how}, {"files": {k: v[:800] for k, v in tree.items()}})
    ctx.stream("one file under several spellings", n, len(progs), "three types whose export_to attributes spell the same file differently (`..`, `./`, `.` segments), referring to each other, to a type in its own file, "
               "and referred to from a nested directory; one program with the same file name `index.ts` in four directories referring to each other upwards, downwards and sideways; export_all_to and TS_RS_EXPORT_DIR; closure oracle (in particular: no file imports from itself); model = implementation on export_to_string", [], {})
    return n


def run(ctx):
    proof = vlib.lean_check(ctx)
    c = corpus.get(ctx)
    if c.real is None:
        vlib.settle(ctx)
        return ctx.finish(proof=proof)
    corpus.report_disagreements(ctx, c, ["export_to_string", "deps", "generics", "output_path", "decl"], "C03")
    total = nontriv = fails = 0
    known_hit = {}
    base = os.path.join(vlib.SCRATCH, "c03")
    for how, spelled in (("to", os.path.join(base, "abs_out")), ("env", os.path.join(base, "env_out")), ("to", os.path.join(base, "x", "..", "dots_out", ".")), ("mixed", os.path.join(base, "mixed_out"))):
        steps, trees = e2e.run_export(ctx, "main", how, spelled)
        for pi, prog in enumerate(c.programs):
            tree = dict(trees.get(f"p{pi}", {}))
            # files that escaped the program's directory (export_to = "../up/") land in the sibling directory `up`
            own = {it["attrs"].get("rename") or it["name"].replace("r#", "") for it in prog["items"]}
            for k, v in trees.get("up", {}).items():
                if k[:-3] in own:
                    tree["../up/" + k] = v
            total += 1
            probs = tsparse.closure_problems({posixpath.normpath("base/" + k): v for k, v in tree.items() if k.endswith(".ts")})
            if how == "mixed" and not mixed_ok(prog, pi, c.real[pi]):
                continue
            st = steps[pi] if pi < len(steps) else []
            if any(x != "ok" for x in st):
                probs.append(f"export returned {st}")
            nontriv += 1 if len(tree) > 2 else 0
            if not probs:
                continue
            uses_escape = '"export_to": "../' in json.dumps(prog["items"])
            e = next((e for e in ctx.known if e.get("match", {}).get("kind") == "escaping_export_to"), None) if uses_escape else None
            if e:
                # only the problems this finding explains: an escaped file (`up/..`) whose import was computed against the default directory
                related = [q for q in probs if q.startswith("up/") and "which this export did not write" in q]
                if related:
                    known_hit[e["id"]] = (e, related[0])
                probs = [q for q in probs if q not in related]
                if not probs:
                    continue
            fails += 1
            if fails <= 5:
                ctx.violation("an exported directory is not closed: " + "; ".join(probs[:3]),
                              {"items": prog["items"], "roots": [pr["ty"] for pr in prog["probes"] if pr["ty"]["k"] == "named"], "entry": how, "dir": spelled},
                              {"files": {k: v[:600] for k, v in list(tree.items())[:6]}})
    for eid, (e, p) in known_hit.items():
        ctx.known_finding(e, p[:300])
    check_findings(ctx)
    check_spellings(ctx, c)
    ctx.stream("exported directories (compiled corpus) judged by an independent TypeScript reader", total, nontriv,
               f"{len(c.programs)} programs x {{export_all_to(absolute dir), export_all() with TS_RS_EXPORT_DIR, export_all_to(dir with dot segments), export() of every second item alone of those the last item depends on, followed by export_all() of the last item}}: every root exported with its dependencies; "
               "placements: default, directory form, shared file, nested, `../` escape; generics, defaults, inline/flatten/as, cycles; oracle: every used name imported exactly once, "
               "imports resolve to written files declaring the names, no self-import, nothing unused; plus model = implementation on export_to_string / dependencies / output_path",
               [{"program": 0}], {"failures": fails, "model_disagreements": len(c.disagreements)})
    ctx.assumptions += ["the import-esm configuration is exercised by C08 (specifier form) and C04 (file syntax); this stream builds the default configuration",
                        "free names are read from the written files by tools/props/tsparse.py (independent of ts-rs)"]
    vlib.settle(ctx)
    return ctx.finish(proof=proof)


def replay(ctx, obj):
    print(json.dumps(obj, indent=1)[:3000])
    return 0
