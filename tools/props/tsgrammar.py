"""An independent reader of the TypeScript subset a declaration file may consist of: written from the
ECMAScript / TypeScript lexical and type grammar, not from ts-rs. It accepts a module made of comments,
`import type { .. } from ".."` statements and `export type X<..> = T;` declarations and nothing else.

    parse_module(text) -> {"imports": [(names, specifier)], "decls": [(name, [params], type)], "comments": [(start, end, body)]}
    raises TsSyntaxError(message, offset)
"""
import unicodedata

RESERVED = {"break", "case", "catch", "class", "const", "continue", "debugger", "default", "delete", "do", "else", "enum", "export", "extends", "false",
            "finally", "for", "function", "if", "import", "in", "instanceof", "new", "null", "return", "super", "switch", "this", "throw", "true", "try",
            "typeof", "var", "void", "while", "with", "implements", "interface", "let", "package", "private", "protected", "public", "static", "yield"}
# names a type alias may not take (TS2457 and friends)
PREDEFINED = {"any", "unknown", "never", "number", "bigint", "boolean", "string", "symbol", "void", "object", "undefined", "null"}


class TsSyntaxError(Exception):
    def __init__(self, msg, pos):
        super().__init__(f"{msg} at offset {pos}")
        self.msg, self.pos = msg, pos


def id_start(c):
    return c in "$_" or unicodedata.category(c) in ("Lu", "Ll", "Lt", "Lm", "Lo", "Nl") or c in "\u2118\u212e\u309b\u309c"


def id_part(c):
    return id_start(c) or unicodedata.category(c) in ("Mn", "Mc", "Nd", "Pc") or c in "\u200c\u200d\u00b7\u0387\u1369\u136a\u136b\u136c\u136d\u136e\u136f\u1370\u1371\u19da"


def tokenize(text):
    toks, comments = [], []
    i, n = 0, len(text)
    while i < n:
        c = text[i]
        if c in " \t\r\n\u00a0\ufeff\u2028\u2029\u000b\u000c":
            i += 1
        elif text.startswith("//", i):
            j = i
            while j < n and text[j] not in "\n\r\u2028\u2029":
                j += 1
            comments.append((i, j, text[i + 2:j]))
            i = j
        elif text.startswith("/*", i):
            j = text.find("*/", i + 2)
            if j < 0:
                raise TsSyntaxError("unterminated comment", i)
            comments.append((i, j + 2, text[i + 2:j]))
            i = j + 2
        elif c in "\"'":
            q, j, val = c, i + 1, []
            while True:
                if j >= n:
                    raise TsSyntaxError("unterminated string literal", i)
                d = text[j]
                if d == q:
                    break
                if d in "\n\r":
                    raise TsSyntaxError("line break in string literal", j)
                if d == "\\":
                    j += 1
                    if j >= n:
                        raise TsSyntaxError("unterminated string literal", i)
                    e = text[j]
                    simple = {"n": "\n", "r": "\r", "t": "\t", "b": "\b", "f": "\f", "v": "\v", "0": "\0", "\"": "\"", "'": "'", "\\": "\\"}
                    if e == "0" and j + 1 < n and text[j + 1] in "0123456789":
                        raise TsSyntaxError("octal escape in string literal", j)
                    if e in simple:
                        val.append(simple[e])
                    elif e == "x":
                        h = text[j + 1:j + 3]
                        if len(h) != 2 or any(x not in "0123456789abcdefABCDEF" for x in h):
                            raise TsSyntaxError("bad \\x escape", j)
                        val.append(chr(int(h, 16)))
                        j += 2
                    elif e == "u":
                        if j + 1 < n and text[j + 1] == "{":
                            k = text.find("}", j)
                            h = text[j + 2:k] if k > 0 else ""
                            if not h or any(x not in "0123456789abcdefABCDEF" for x in h) or int(h, 16) > 0x10FFFF:
                                raise TsSyntaxError("bad \\u{} escape", j)
                            val.append(chr(int(h, 16)))
                            j = k
                        else:
                            h = text[j + 1:j + 5]
                            if len(h) != 4 or any(x not in "0123456789abcdefABCDEF" for x in h):
                                raise TsSyntaxError("bad \\u escape", j)
                            val.append(chr(int(h, 16)))
                            j += 4
                    elif e in "123456789":
                        raise TsSyntaxError("octal escape in string literal", j)
                    elif e in "\n\u2028\u2029":
                        pass        # line continuation
                    elif e == "\r":
                        if j + 1 < n and text[j + 1] == "\n":
                            j += 1
                    else:
                        val.append(e)
                else:
                    val.append(d)
                j += 1
            toks.append(("str", "".join(val), i))
            i = j + 1
        elif c.isdigit() or (c == "-" and i + 1 < n and text[i + 1].isdigit()):
            j = i + 1
            while j < n and (text[j].isdigit() or text[j] in "._eE" or (text[j] in "+-" and text[j - 1] in "eE")):
                j += 1
            if j < n and (id_start(text[j])) and text[j] != "n":
                raise TsSyntaxError("identifier directly after a numeric literal", j)
            if j < n and text[j] == "n":
                j += 1
            toks.append(("num", text[i:j], i))
            i = j
        elif id_start(c):
            j = i + 1
            while j < n and id_part(text[j]):
                j += 1
            toks.append(("id", text[i:j], i))
            i = j
        elif text.startswith("=>", i) or text.startswith("...", i):
            l = 2 if text.startswith("=>", i) else 3
            toks.append(("p", text[i:i + l], i))
            i += l
        elif c in "{}[]()<>|&,;:?=.*-+":
            toks.append(("p", c, i))
            i += 1
        elif c == "`":
            raise TsSyntaxError("template literal (not produced by a declaration generator)", i)
        else:
            raise TsSyntaxError(f"unexpected character {c!r}", i)
    toks.append(("eof", "", n))
    return toks, comments


class P:
    def __init__(self, text):
        self.text = text
        self.toks, self.comments = tokenize(text)
        self.i = 0

    def peek(self, k=0):
        return self.toks[min(self.i + k, len(self.toks) - 1)]

    def at(self, kind, val=None):
        t = self.peek()
        return t[0] == kind and (val is None or t[1] == val)

    def eat(self, kind, val=None):
        t = self.peek()
        if t[0] != kind or (val is not None and t[1] != val):
            raise TsSyntaxError(f"expected {val or kind}, found {t[1] or t[0]!r}", t[2])
        self.i += 1
        return t

    def opt(self, kind, val=None):
        if self.at(kind, val):
            self.i += 1
            return True
        return False

    def binding_ident(self, what):
        t = self.eat("id")
        if t[1] in RESERVED:
            raise TsSyntaxError(f"reserved word `{t[1]}` used as {what}", t[2])
        return t

    # ---- module ----
    def module(self):
        imports, decls = [], []
        seen_decl = False
        while not self.at("eof"):
            if self.at("id", "import"):
                start = self.peek()[2]
                if seen_decl:
                    raise TsSyntaxError("import after a declaration", start)
                self.eat("id", "import")
                self.eat("id", "type")
                self.eat("p", "{")
                names = []
                while not self.at("p", "}"):
                    names.append(self.binding_ident("import name")[1])
                    if self.at("id", "as"):
                        self.eat("id", "as")
                        names[-1] = self.binding_ident("import alias")[1]
                    if not self.opt("p", ","):
                        break
                self.eat("p", "}")
                self.eat("id", "from")
                spec = self.eat("str")[1]
                self.opt("p", ";")
                imports.append((names, spec))
            elif self.at("id", "export"):
                seen_decl = True
                self.eat("id", "export")
                self.eat("id", "type")
                name = self.binding_ident("type name")
                if name[1] in PREDEFINED:
                    raise TsSyntaxError(f"type alias name cannot be `{name[1]}`", name[2])
                params = []
                if self.opt("p", "<"):
                    while not self.at("p", ">"):
                        pn = self.binding_ident("type parameter")[1]
                        if self.at("id", "extends"):
                            self.eat("id", "extends")
                            self.type()
                        if self.opt("p", "="):
                            self.type()
                        params.append(pn)
                        if not self.opt("p", ","):
                            break
                    self.eat("p", ">")
                    if not params:
                        raise TsSyntaxError("empty type parameter list", name[2])
                self.eat("p", "=")
                t = self.type()
                if not self.opt("p", ";"):
                    # automatic semicolon insertion needs a line break before the next token
                    nxt = self.peek()
                    prev_end = self.toks[self.i - 1][2]
                    if nxt[0] != "eof" and "\n" not in self.text[prev_end:nxt[2]]:
                        raise TsSyntaxError("expected `;`", nxt[2])
                decls.append((name[1], params, t))
            else:
                t = self.peek()
                raise TsSyntaxError(f"only `import type` and `export type` statements are allowed, found {t[1]!r}", t[2])
        return {"imports": imports, "decls": decls, "comments": self.comments}

    # ---- types ----
    def type(self):
        self.opt("p", "|")
        parts = [self.inter()]
        while self.opt("p", "|"):
            parts.append(self.inter())
        return parts[0] if len(parts) == 1 else ("union", parts)

    def inter(self):
        self.opt("p", "&")
        parts = [self.postfix()]
        while self.opt("p", "&"):
            parts.append(self.postfix())
        return parts[0] if len(parts) == 1 else ("inter", parts)

    def postfix(self):
        t = self.primary()
        while self.at("p", "[") and "\n" not in self.text[self.toks[self.i - 1][2]:self.peek()[2]]:
            self.eat("p", "[")
            if self.opt("p", "]"):
                t = ("array", t)
            else:
                k = self.type()
                self.eat("p", "]")
                t = ("index", t, k)
        return t

    def primary(self):
        t = self.peek()
        if t[0] == "p" and t[1] == "(":
            self.eat("p", "(")
            x = self.type()
            self.eat("p", ")")
            return ("paren", x)
        if t[0] == "p" and t[1] == "{":
            return self.object()
        if t[0] == "p" and t[1] == "[":
            self.eat("p", "[")
            items = []
            while not self.at("p", "]"):
                self.opt("p", "...")
                items.append(self.type())
                self.opt("p", "?")
                if not self.opt("p", ","):
                    break
            self.eat("p", "]")
            return ("tuple", items)
        if t[0] == "str":
            self.i += 1
            return ("lit", t[1])
        if t[0] == "num":
            self.i += 1
            return ("num", t[1])
        if t[0] == "id":
            if t[1] in ("keyof", "typeof", "readonly", "unique", "infer"):
                self.i += 1
                return (t[1], self.postfix())
            if t[1] in RESERVED and t[1] not in ("null", "true", "false", "void", "this"):
                raise TsSyntaxError(f"reserved word `{t[1]}` in type position", t[2])
            self.i += 1
            name = t[1]
            while self.at("p", ".") :
                self.eat("p", ".")
                name += "." + self.eat("id")[1]
            args = []
            if self.at("p", "<"):
                self.eat("p", "<")
                while True:
                    args.append(self.type())
                    if not self.opt("p", ","):
                        break
                self.eat("p", ">")
            return ("ref", name, args)
        raise TsSyntaxError(f"type expected, found {t[1] or t[0]!r}", t[2])

    def object(self):
        self.eat("p", "{")
        members = []
        while not self.at("p", "}"):
            self.opt("id", "readonly") if (self.at("id", "readonly") and not (self.peek(1)[0] == "p" and self.peek(1)[1] in ":?")) else None
            t = self.peek()
            if t[0] == "p" and t[1] == "[":
                self.eat("p", "[")
                kn = self.eat("id")[1]
                if self.at("id", "in"):
                    self.eat("id", "in")
                    kt = self.type()
                    kind = "mapped"
                else:
                    self.eat("p", ":")
                    kt = self.type()
                    kind = "indexsig"
                self.eat("p", "]")
                opt = self.opt("p", "?")
                self.eat("p", ":")
                vt = self.type()
                members.append((kind, kn, kt, opt, vt))
            else:
                if t[0] in ("id", "str", "num"):
                    self.i += 1
                    key = t[1]
                    if t[0] == "num":
                        # a numeric literal as property name stands for String(Number(literal)); a leading zero is a legacy octal literal
                        txt = t[1].rstrip("n")
                        if len(txt) > 1 and txt[0] == "0" and txt[1].isdigit():
                            raise TsSyntaxError("legacy octal literal as property name", t[2])
                        try:
                            v = float(txt.replace("_", ""))
                            key = str(int(v)) if v == int(v) and abs(v) < 1e21 else repr(v)
                        except ValueError:
                            raise TsSyntaxError("bad numeric property name", t[2])
                else:
                    raise TsSyntaxError(f"property name expected, found {t[1] or t[0]!r}", t[2])
                opt = self.opt("p", "?")
                self.eat("p", ":")
                vt = self.type()
                members.append(("prop", key, opt, vt, t[0]))
            if not (self.opt("p", ",") or self.opt("p", ";")):
                nxt = self.peek()
                if not (nxt[0] == "p" and nxt[1] == "}") and "\n" not in self.text[self.toks[self.i - 1][2]:nxt[2]]:
                    raise TsSyntaxError("expected `,` `;` or `}` after a member", nxt[2])
        self.eat("p", "}")
        return ("object", members)


def parse_module(text):
    return P(text).module()


def parse_type(text):
    p = P(text)
    t = p.type()
    p.eat("eof")
    return t


if __name__ == "__main__":
    import sys
    print(parse_module(open(sys.argv[1], encoding="utf-8").read()))
