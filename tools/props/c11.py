"""C11 — an export writes exactly the root's and its dependencies' files, as documented."""
import json, os, posixpath
import vlib
from props import uni

ENVS = [None, "rel/out", "$ROOT/abs/out", "./bindings/./"]
ROOTS = [0, 1, 2, 3, 4, 5, 6, 7, 8, 9, 10, 11, 12, 13, 14, 17, 18, 19, 20, 21, 22, 23, 24, 31, 34, 44, 49, 52, 53, 54, 55, 56, 57, 60, 62, 64, 69]
PAIRS = [(10, 11), (11, 10), (21, 22), (22, 21), (2, 7), (4, 23), (23, 4), (17, 10), (10, 17), (34, 31), (7, 6), (46, 47), (47, 46), (50, 51), (51, 50)]


def base_of(dod, root):
    d = dod[len(root):].lstrip("/") if dod.startswith(root) else dod
    return posixpath.normpath(d)


def expected_path(t, name_ts):
    """the three documented cases, from the attribute as written in harness/universe (independent of output_path())"""
    return None


def run(ctx):
    proof = vlib.lean_check(ctx)
    binary = uni.build(ctx)
    if binary is None:
        vlib.settle(ctx)
        return ctx.finish(proof=proof)
    root = os.path.join(vlib.SCRATCH, "u11")
    total = nontriv = 0
    # documented output paths of the universe's types (hand-written from the attributes in harness/universe/src/main.rs)
    documented = {"Leaf": "Leaf.ts", "Inner": "Inner.ts", "Outer": "Outer.ts", "ShA": "shared.ts", "ShB": "shared.ts", "ShC": "shared.ts",
                  "InDir": "sub/InDir.ts", "Deep": "a/b/deep.ts", "M1": "M1.ts", "M2": "sub/M2.ts", "Wrapper<Apple>": "Wrapper.ts",
                  "Wrapper<Banana>": "Wrapper.ts", "Apple": "Apple.ts", "Banana": "Banana.ts", "Esc": "../esc/Esc.ts", "UsesVec": "UsesVec.ts",
                  "Inl": "Inl.ts", "Fl": "Fl.ts", "AsTy": "AsTy.ts", "Dflt<Banana>": "Dflt.ts", "Dflt<Apple>": "Dflt.ts", "ShD": "shared.ts", "En": "En.ts",
                  "Wheel": "Wheel.ts", "Seat": "Seat.ts", "Engine": "parts/engine.ts", "CarAliased": "CarAliased.ts",
                  # only a trailing `/` makes `export_to` a directory; everything else is the file, verbatim (whatever its extension)
                  "NoExt": "forms/index", "OtherExt": "forms/types.d.mts", "DotDir": "forms/v1.ts/DotDir.ts", "Hidden": ".hidden",
                  "ShDots": "dots/../shared.ts", "UserId": "ids.ts", "shapes::Point": "shapes/Point.ts", "geo::Point": "geo/Point.ts", "Srid": "geo/Srid.ts",
                  "Pt<u8>": "pts.ts", "Pt2": "pts.ts", "DepW": "dep.ts", "PA": "pshared.ts",
                  "ShDots2": "dots/../shared.ts", "HiddenDep": ".generated/HiddenDep.ts", "DotA": ".dotshared.ts", "UsesDotNames": "UsesDotNames.ts",
                  # two instantiations of one generic type with DIFFERENT dependency lists (through an associated type of the argument)
                  "AsInfoA": "AsInfoA.ts", "AsInfoB": "AsInfoB.ts", "AsInner<AsDriverA>": "AsInner.ts", "AsInner<AsDriverB>": "AsInner.ts", "AsRoot": "AsRoot.ts"}
    for env in ENVS:
        types, dod = uni.describe(binary, root, env)
        base = base_of(dod, root)
        for t in types:
            if t["name"] in documented and t["output_path"] != documented[t["name"]]:
                ctx.violation("output_path() is not the documented relative path", {"type": t["name"], "env": env},
                              {"output_path": t["output_path"], "documented": documented[t["name"]]})
        hists, meta = [], []
        unrelated = [{"k": "write", "p": f"$ROOT/{base}/unrelated.txt", "s": "keep me"}, {"k": "write", "p": f"$ROOT/{base}/sub/other.ts", "s": "// not ours\n"},
                     {"k": "write", "p": "$ROOT/elsewhere/x.ts", "s": "x"}]
        for t in ROOTS:
            for form in ("export_all", "export_all_to", "export_all_to_other", "export"):
                st = {"k": form if form != "export_all_to_other" else "export_all_to", "t": t}
                b = base
                if form == "export_all_to":
                    st["dir"] = "./" + base + "/"
                elif form == "export_all_to_other":
                    st["dir"] = "other/dir"
                    b = "other/dir"
                h = {"op": "uhist", "root": root, "steps": unrelated + [{"k": "snap"}, st, {"k": "snap"}]}
                if env is not None:
                    h["env"] = env
                hists.append(h)
                meta.append((t, form, b))
        # two exports in one process: the second must still write all of ITS files and nothing else
        for (t1, t2) in PAIRS:
            for form in ("export_all", "export_all_to_other"):
                def st(t):
                    return {"k": "export_all", "t": t} if form == "export_all" else {"k": "export_all_to", "t": t, "dir": "other/dir"}
                h = {"op": "uhist", "root": root, "steps": unrelated + [st(t1), {"k": "snap"}, st(t2), {"k": "snap"}]}
                if env is not None:
                    h["env"] = env
                hists.append(h)
                meta.append((t2, "second:" + form, base if form == "export_all" else "other/dir"))
        # the working directory changes between two exports of one process: a relative directory is relative to the directory that is
        # current when the export is called
        for (t1, t2) in PAIRS[:6]:
            h = {"op": "uhist", "root": root, "steps": unrelated + [{"k": "export_all_to", "t": t1, "dir": "rel/out"}, {"k": "mkdir", "p": "$ROOT/elsewhere/cwd2"},
                                                                  {"k": "cd", "p": "$ROOT/elsewhere/cwd2"}, {"k": "snap"}, {"k": "export_all_to", "t": t2, "dir": "rel/out"}, {"k": "snap"}]}
            if env is not None:
                h["env"] = env
            hists.append(h)
            meta.append((t2, "aftercd:export_all_to", "elsewhere/cwd2/rel/out"))
        # a dependency's location is occupied by a directory: `Ok` may only be returned when every reachable type has its file
        for t in ROOTS:
            reach_t = uni.reach(types, t)
            for victim in reach_t[1:4]:
                vloc = posixpath.normpath(posixpath.join(base, types[victim]["output_path"]))
                h = {"op": "uhist", "root": root, "steps": unrelated + [{"k": "mkdir", "p": "$ROOT/" + vloc}, {"k": "snap"}, {"k": "export_all", "t": t}, {"k": "snap"},
                                                                      {"k": "rm", "p": "$ROOT/" + vloc}, {"k": "export_all", "t": t}, {"k": "snap"}]}
                if env is not None:
                    h["env"] = env
                hists.append(h)
                meta.append((t, "blocked:" + str(victim), base))
        real, model, dis = uni.run_both(ctx, binary, types, hists, f"single exports env={env}")
        total += len(hists)
        for h, r, (t, form, b) in zip(hists, real, meta):
            before = {p: n for p, n in r["snaps"][0]}
            after = {p: n for p, n in r["snaps"][1]}
            changed = {p for p in set(before) | set(after) if before.get(p) != after.get(p)}
            targets = [t] if form == "export" else uni.reach(types, t)
            locs = {posixpath.normpath(posixpath.join(b, types[x]["output_path"])) for x in targets}
            changed_files = {p for p in changed if "file" in after.get(p, {}) or "file" in before.get(p, {})}
            new_dirs = {p for p in changed if after.get(p) == {"dir": True}}
            anc = set()
            for l in locs:
                d = posixpath.dirname(l)
                while d:
                    anc.add(d)
                    d = posixpath.dirname(d)
            case = {"env": env, "type": types[t]["name"], "entry": form, "steps": h["steps"]}
            problems = []
            if form.startswith("blocked:"):
                # after the obstacle is removed and the export repeated: Ok only with every file there
                final = {p: n for p, n in r["snaps"][2]}
                missing2 = sorted(l for l in locs if "file" not in final.get(l, {}))
                if r["steps"][-2] == "ok" and missing2:
                    ctx.violation("export_all (repeated after a failed attempt) returned Ok although files of reachable types were not written: " + ", ".join(missing2[:4]),
                                  dict(case, blocked=types[int(form.split(":")[1])]["name"]), {"reach": [types[x]["name"] for x in targets], "step_results": r["steps"]})
                missing = sorted(l for l in locs if "file" not in after.get(l, {}))
                if r["steps"][-5] == "ok" and missing:
                    ctx.violation("export_all returned Ok although files of reachable types were not written: " + ", ".join(missing[:4]),
                                  dict(case, blocked=types[int(form.split(":")[1])]["name"]), {"reach": [types[x]["name"] for x in targets]})
                continue
            if r["steps"][-2] != "ok":
                problems.append(f"export returned {r['steps'][-2]}")
            if form.startswith("second:"):
                if not changed_files <= locs:
                    problems.append(f"second export touched {sorted(changed_files - locs)} outside its own locations")
            elif changed_files != locs:
                problems.append(f"files created/changed {sorted(changed_files)} != locations of the reachable exportable types {sorted(locs)}")
            if not all("file" in after.get(l, {}) for l in locs):
                problems.append("a location holds no file afterwards")
            if new_dirs - anc:
                problems.append(f"directories created that are no ancestors of a written file: {sorted(new_dirs - anc)}")
            if form == "export":
                dop = types[t]["default_output_path"]
                want = posixpath.normpath(dop[len(root):].lstrip("/") if dop.startswith(root) else dop)
                if changed_files != {want}:
                    problems.append(f"default_output_path() = {dop} but export() wrote {sorted(changed_files)}")
            # closure judged from the written files themselves (independent of visit_dependencies): every referenced name has its file
            if form != "export":
                from props import tsparse
                files = {p[len(b) + 1:]: n["file"] for p, n in after.items() if "file" in n and p.startswith(b + "/") and p.endswith(".ts") and p != b + "/sub/other.ts"}
                cp = [q for q in tsparse.closure_problems(files) if "Esc" not in q]
                if cp:
                    problems.append("the written directory is not closed: " + "; ".join(cp[:3]))
            nontriv += 1 if len(locs) > 1 else 0
            if problems:
                ctx.violation("export wrote something other than exactly the root's and its dependencies' files: " + "; ".join(problems), case,
                              {"reach": [types[x]["name"] for x in targets]})
    ctx.stream("single exports into a pre-populated directory", total, nontriv,
               "%d root types x {export, export_all, export_all_to(default dir), export_all_to(other dir)} x 4 TS_RS_EXPORT_DIR settings, unrelated files present; "
               "snapshots before/after; changed files must equal the locations of reach(root) computed from visit_dependencies; non-trivial = roots with >1 location" % len(ROOTS),
               [{"type": "Deep", "entry": "export_all"}], {})
    ctx.assumptions += ["reach(root) is computed from the dependency lists the compiled types report (visit_dependencies); whether those lists are right is C03's subject",
                        "documented relative paths of the universe types are listed by hand in the check"]
    vlib.settle(ctx)
    return ctx.finish(proof=proof)


def replay(ctx, obj):
    binary = uni.build(ctx)
    c = obj["case"]
    h = {"op": "uhist", "root": os.path.join(vlib.SCRATCH, "u11r"), "steps": c["steps"]}
    if c.get("env") is not None:
        h["env"] = c["env"]
    r = vlib.run_real(binary, [h])[0]
    print(json.dumps({"steps": r["steps"], "after": [p for p, _ in r["snaps"][1]]}, indent=1))
    return 0
