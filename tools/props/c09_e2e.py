"""Compiled stream for C09: real derive(TS) and real serde on the same identifiers."""
import json, os, re, shutil
import vlib

RULES = [("Lower", "lowercase"), ("Upper", "UPPERCASE"), ("Camel", "camelCase"), ("Snake", "snake_case"),
         ("Pascal", "PascalCase"), ("ScreamingSnake", "SCREAMING_SNAKE_CASE"), ("Kebab", "kebab-case"),
         ("ScreamingKebab", "SCREAMING-KEBAB-CASE")]
IDENTS = ["foo", "foo_bar", "fooBar", "FooBar", "Foo_Bar", "_a", "a_", "a__b", "__a", "HTTPServer", "x1", "x_1", "A", "a",
          "straße", "Évènement", "éa", "r#type", "r#match", "A1b2", "a_B", "XMLHttpRequest", "aB_c", "Ab", "AB", "a1_b2", "ÀB"]


def crate_dir():
    return os.path.join(vlib.BUILD, "e2e-c09")


def write_crate(fields_by_rule, variants_by_rule):
    d = crate_dir()
    os.makedirs(os.path.join(d, "src"), exist_ok=True)
    os.makedirs(os.path.join(d, ".cargo"), exist_ok=True)
    shutil.copy(os.path.join(vlib.REPO, "Cargo.lock"), os.path.join(d, "Cargo.lock"))
    open(os.path.join(d, ".cargo", "config.toml"), "w").write("[net]\noffline = true\n")
    open(os.path.join(d, "Cargo.toml"), "w").write(f'''[package]
name = "e2e-c09"
version = "0.1.0"
edition = "2021"
[workspace]
[dependencies]
ts-rs = {{ path = "{vlib.REPO}/ts-rs" }}
serde = {{ version = "1", features = ["derive"] }}
serde_json = "1"
[profile.dev]
debug = false
''')
    L = ["#![allow(non_snake_case, non_camel_case_types, non_upper_case_globals, uncommon_codepoints, dead_code, confusable_idents, mixed_script_confusables)]",
         "use serde::Serialize; use ts_rs::TS;", "fn main() {"]
    items = []
    for (rn, rs) in RULES:
        fs = fields_by_rule[rn]
        if fs:
            items.append(f'#[derive(TS, Serialize, Default)] #[serde(rename_all = "{rs}")] struct F_{rn} {{ ' + " ".join(f"{i}: u8," for i in fs) + " }")
            L.append(f'  println!("{{}}", serde_json::json!({{"kind":"field","rule":"{rn}","decl":F_{rn}::decl(),"json":serde_json::to_string(&F_{rn}::default()).unwrap()}}));')
            items.append(f'#[derive(TS, Serialize)] #[serde(rename_all_fields = "{rs}")] enum S_{rn} {{ V {{ ' + " ".join(f"{i}: u8," for i in fs) + " } }")
            L.append(f'  println!("{{}}", serde_json::json!({{"kind":"vfield","rule":"{rn}","decl":S_{rn}::decl(),"json":serde_json::to_string(&S_{rn}::V {{ ' + " ".join(f"{i}: 0," for i in fs) + f' }}).unwrap()}}));')
        vs = variants_by_rule[rn]
        if vs:
            items.append(f'#[derive(TS, Serialize)] #[serde(rename_all = "{rs}")] enum V_{rn} {{ ' + " ".join(f"{i}," for i in vs) + " }")
            L.append(f'  let vs: Vec<String> = vec![' + ", ".join(f"serde_json::to_string(&V_{rn}::{i}).unwrap()" for i in vs) + "];")
            L.append(f'  println!("{{}}", serde_json::json!({{"kind":"variant","rule":"{rn}","decl":V_{rn}::decl(),"json":vs}}));')
    # precedence / interplay: enum rename_all (variants) x rename_all_fields x variant rename_all x explicit rename
    for xi, (xn, xs) in enumerate(RULES):
        for yi, (yn, ys) in enumerate(RULES):
            items.append(f'#[derive(TS, Serialize)] #[serde(rename_all = "{ys}", rename_all_fields = "{xs}")] enum M_{xn}_{yn} {{ '
                         f'#[serde(rename_all = "{ys}")] Va_Ab {{ foo_bar: u8, fooBar: u8 }}, Wb_Cd {{ foo_bar: u8, #[serde(rename = "Re-Named")] x_y: u8 }}, '
                         f'#[serde(rename = "ex-Plicit")] Xc {{ a_b: u8 }}, Yd_e }}')
            L.append(f'  let vs: Vec<String> = vec![serde_json::to_string(&M_{xn}_{yn}::Va_Ab {{ foo_bar: 0, fooBar: 0 }}).unwrap(), '
                     f'serde_json::to_string(&M_{xn}_{yn}::Wb_Cd {{ foo_bar: 0, x_y: 0 }}).unwrap(), '
                     f'serde_json::to_string(&M_{xn}_{yn}::Xc {{ a_b: 0 }}).unwrap(), serde_json::to_string(&M_{xn}_{yn}::Yd_e).unwrap()];')
            L.append(f'  println!("{{}}", serde_json::json!({{"kind":"mixed","rule":"{xn}/{yn}","decl":M_{xn}_{yn}::decl(),"json":vs}}));')
        # a struct variant that is individually `untagged` still gets the enum's rename_all_fields (and its own rename_all wins over it)
        items.append(f'#[derive(TS, Serialize)] #[serde(rename_all_fields = "{xs}")] enum U_{xn} {{ Plain {{ foo_bar: u8 }}, '
                     f'#[serde(untagged)] Raw {{ foo_bar: u8, multi_word_x: u8 }}, #[serde(untagged, rename_all = "SCREAMING-KEBAB-CASE")] Own {{ own_rule_y: u8 }} }}')
        L.append(f'  let vs: Vec<String> = vec![serde_json::to_string(&U_{xn}::Raw {{ foo_bar: 0, multi_word_x: 0 }}).unwrap(), '
                 f'serde_json::to_string(&U_{xn}::Own {{ own_rule_y: 0 }}).unwrap()];')
        L.append(f'  println!("{{}}", serde_json::json!({{"kind":"untagvar","rule":"{xn}","decl":U_{xn}::decl(),"json":vs}}));')
        items.append(f'#[derive(TS, Serialize, Default)] #[serde(rename_all = "{xs}")] struct R_{xn} {{ foo_bar: u8, #[serde(rename = "kept_AsIs")] b_c: u8, #[serde(rename = "")] e_f: u8 }}')
        L.append(f'  println!("{{}}", serde_json::json!({{"kind":"renamed","rule":"{xn}","decl":R_{xn}::decl(),"json":serde_json::to_string(&R_{xn}::default()).unwrap()}}));')
    L.append("}")
    src = "\n".join(L + items) + "\n"
    p = os.path.join(d, "src", "main.rs")
    if not os.path.exists(p) or open(p).read() != src:
        open(p, "w").write(src)


def unq(s):
    s = s.strip()
    return json.loads(s) if s.startswith('"') else s


def run(ctx, chars):
    # which (ident, rule, position) does the model say panics (both ts-rs and serde would abort compilation)?
    q = []
    plain = [i.replace("r#", "") for i in IDENTS]
    for i in plain:
        for rn, _ in RULES:
            q += [{"op": "inflect_field", "rule": rn, "s": i}, {"op": "inflect_variant", "rule": rn, "s": i},
                  {"op": "serde_field", "rule": rn, "s": i}, {"op": "serde_variant", "rule": rn, "s": i}]
    ans = vlib.run_model([chars] + q)[1:]
    fields_by_rule, variants_by_rule, k = {r: [] for r, _ in RULES}, {r: [] for r, _ in RULES}, 0
    model = {}
    for raw, i in zip(IDENTS, plain):
        for rn, _ in RULES:
            tf, tv, sf, sv = ans[k], ans[k + 1], ans[k + 2], ans[k + 3]
            k += 4
            model[(i, rn)] = (tf, tv, sf, sv)
            if "ok" in sf:
                fields_by_rule[rn].append(raw)
            if "ok" in sv:
                variants_by_rule[rn].append(raw)
    write_crate(fields_by_rule, variants_by_rule)
    env = vlib.cargo_env()
    import e2e
    env["CARGO_TARGET_DIR"] = e2e.target_dir()
    rc, out = vlib.sh(["cargo", "run", "--offline", "--quiet"], cwd=crate_dir(), env=env, timeout=3000)
    if rc != 0:
        ctx.log("e2e-c09 failed:\n" + out[-3000:])
        ctx.broken.append("compiled C09 stream does not build/run: " + out.strip().split("\n")[-1][:300])
        return
    total = mism_model = fails = 0
    known_hits = {}
    samples = []
    for line in out.strip().split("\n"):
        if not line.startswith("{"):
            continue
        o = json.loads(line)
        rn, kind = o["rule"], o["kind"]
        if kind == "untagvar":
            arms = o["decl"].split("=", 1)[1].strip().rstrip(";").split(" | ")
            ts_shape = [[unq(p.split(":")[0]) for p in a.strip()[1:-1].split(",") if ":" in p] for a in arms[1:]]
            sj = [[k for k, _ in json.loads(x, object_pairs_hook=lambda kv: kv)] for x in o["json"]]
            total += sum(len(x) for x in sj)
            if ts_shape != sj:
                fails += 1
                ctx.violation(f"names in the binding differ from the names serde puts on the wire (untagged struct variants under rename_all_fields; {rn})",
                              {"kind": kind, "rules": rn, "decl": o["decl"]}, {"ts_names": ts_shape, "serde_names": sj})
            continue
        if kind in ("mixed", "renamed"):
            if kind == "mixed":
                arms = o["decl"].split("=", 1)[1].strip().rstrip(";").split(" | ")
                ts_shape = []
                for a in arms:
                    m = re.match(r'^\{ (\S+): \{ (.*) \} \}$', a.strip())
                    if m:
                        ts_shape.append([unq(m.group(1))] + [unq(p.split(":")[0]) for p in m.group(2).split(",") if ":" in p])
                    else:
                        ts_shape.append([unq(a)])
                sj = []
                for x in o["json"]:
                    v = json.loads(x, object_pairs_hook=lambda kv: kv)
                    sj.append([v] if isinstance(v, str) else [v[0][0]] + [k for k, _ in v[0][1]])
            else:
                body = o["decl"].split("{", 1)[1].rsplit("}", 1)[0]
                ts_shape = [[unq(p.split(":")[0]) for p in body.split(",") if ":" in p]]
                sj = [[k for k, _ in json.loads(o["json"], object_pairs_hook=lambda kv: kv)]]
            total += sum(len(x) for x in sj)
            if ts_shape != sj:
                fails += 1
                ctx.violation(f"names in the binding differ from the names serde puts on the wire (interplay of rename_all / rename_all_fields / rename; {kind} {rn})",
                              {"kind": kind, "rules": rn, "decl": o["decl"]}, {"ts_names": ts_shape, "serde_names": sj})
            elif len(samples) < 4:
                samples.append({"kind": kind, "rules": rn, "names": sj})
            continue
        if kind in ("field", "vfield"):
            idl = fields_by_rule[rn]
            body = o["decl"].split("{", 1)[1].rsplit("}", 1)[0]
            if kind == "vfield":
                body = body.split("{", 1)[1].rsplit("}", 1)[0]
            ts_names = [unq(p.split(":")[0]) for p in body.split(",") if ":" in p]
            js = json.loads(o["json"], object_pairs_hook=lambda kv: kv)
            if kind == "vfield":
                js = js[0][1]
            serde_names = [k for k, _ in js]
            pos = "field"
        else:
            idl = variants_by_rule[rn]
            ts_names = [unq(p) for p in o["decl"].split("=", 1)[1].rstrip(";").split("|")]
            serde_names = [json.loads(x) for x in o["json"]]
            pos = "variant"
        if not (len(ts_names) == len(serde_names) == len(idl)):
            ctx.broken.append(f"compiled C09 stream: cannot align names for {kind}/{rn}: {o}")
            continue
        for raw, t, s in zip(idl, ts_names, serde_names):
            i = raw.replace("r#", "")
            total += 1
            mtf, mtv, msf, msv = model[(i, rn)]
            mts, ms = (mtf, msf) if pos == "field" else (mtv, msv)
            if mts.get("ok") != t or ms.get("ok") != s:
                mism_model += 1
                if mism_model <= 3:
                    ctx.broken.append(f"compiled C09 stream: model disagrees with compiled code for {pos} `{raw}` x {rn}: "
                                      f"ts-rs {t!r} (model {mts}), serde {s!r} (model {ms})")
            if t != s:
                fails += 1
                ctx.violation(f"binding name differs from the name serde puts on the wire ({kind}, {rn})",
                              {"pos": pos, "rule": rn, "ident": i, "kind": kind}, {"ts": t, "serde_json": s})
            if len(samples) < 3 and t != i:
                samples.append({"kind": kind, "rule": rn, "ident": raw, "ts": t, "serde_json": s})
    ctx.stream("compiled (real derive(TS) decl vs real serde_json keys/tags)", total, total,
               f"{len(IDENTS)} identifiers x 8 rules x {{struct field, struct-variant field under rename_all_fields, unit variant}}, "
               "compiled with the real ts-rs derive and serde 1.0.215; names compared position-wise; also validates Model/Case.lean's serde side",
               samples, {"model_disagreements": mism_model, "failures": fails, "known_class_hits": known_hits})
