"""C01 — serialized values inhabit the generated TypeScript type."""
import json, os, random
import vlib, e2e, gen_corpus
from gen_corpus import P, N, OPT, VEC, PARAM
from props import corpus


def tagged_newtype_programs(ctx):
    """newtype variants of internally / adjacently tagged enums over struct- and union-typed fields, by name and with `#[ts(inline)]`
    (the shared corpus keeps `inline` away from these positions because of a C03 finding about their imports)"""
    rng = random.Random(ctx.seed * 13 + 2)
    progs = []
    for i in range(2 if ctx.quick else 12):
        L = {"kind": "struct", "name": f"X{i}L", "shape": "named", "attrs": {}, "generics": [], "fields": [{"name": "x", "ty": P("u8"), "attrs": {}}, {"name": "o", "ty": OPT(P("String")), "attrs": {}}]}
        IE = {"kind": "enum", "name": f"X{i}IE", "attrs": {"tag": "kind"}, "generics": [],
              "variants": [{"name": "Circle", "shape": "named", "fields": [{"name": "r", "ty": P("u32"), "attrs": {}}], "attrs": {}},
                           {"name": "Square", "shape": "named", "fields": [{"name": "side", "ty": P("u32"), "attrs": {}}], "attrs": {}},
                           {"name": "Dot", "shape": "unit", "fields": [], "attrs": {}}]}
        XE = {"kind": "enum", "name": f"X{i}XE", "attrs": {}, "generics": [],
              "variants": [{"name": "A", "shape": "named", "fields": [{"name": "a", "ty": P("bool"), "attrs": {}}], "attrs": {}},
                           {"name": "B", "shape": "named", "fields": [{"name": "b", "ty": N(L["name"]), "attrs": {}}], "attrs": {}}]}
        # parentheses inside string literals and doc comments (they do not count when a single flattened field's parentheses are stripped)
        if i % 3 == 0:
            XE["variants"][0]["attrs"]["rename"] = "a("          # an opening parenthesis in the FIRST operand of `(..) & (..)`
            IE["variants"][2]["attrs"]["rename"] = "dot)"
        elif i % 3 == 1:
            XE["variants"][0]["fields"][0]["attrs"]["docs"] = [" open ( in a doc comment\n whose last line ends with a star *"]
            IE["variants"][0]["fields"][0]["attrs"]["docs"] = [" radius :) in mm"]
        else:
            XE["variants"][1]["fields"][0]["attrs"]["rename"] = "b\"("
        items = [L, IE, XE]
        outs = []
        for repr_, attrs in (("int", {"tag": "type"}), ("adj", {"tag": "t", "content": "c"})):
            for inl in (False, True):
                vs = []
                for k, inner in enumerate([N(L["name"]), N(IE["name"]), N(XE["name"])] + ([VEC(N(IE["name"])), OPT(N(L["name"]))] if repr_ == "adj" else [])):
                    vs.append({"name": f"V{k}", "shape": "tuple", "fields": [{"name": None, "ty": inner, "attrs": {"inline": True} if inl else {}}], "attrs": {}})
                vs.append({"name": "Clear", "shape": "unit", "fields": [], "attrs": {}})
                outs.append({"kind": "enum", "name": f"X{i}O{repr_}{'I' if inl else 'N'}", "attrs": dict(attrs), "generics": [], "variants": vs})
        items += outs
        imap = {x["name"]: x for x in items}
        g = gen_corpus.Gen(rng)
        probes = [{"ty": N(o["name"]), "values": g.all_variant_values(N(o["name"]), imap)} for o in outs]
        inner_probes = [{"ty": N(x["name"]), "values": []} for x in (L, IE, XE)]
        # every inner variant under every outer variant
        for pr, o in zip(probes, outs):
            extra = []
            for vi_, v in enumerate(o["variants"]):
                if v["shape"] == "tuple" and v["fields"][0]["ty"]["k"] == "named" and imap[v["fields"][0]["ty"]["id"]]["kind"] == "enum":
                    for iv in g.all_variant_values(v["fields"][0]["ty"], imap):
                        extra.append({"k": "variant", "i": vi_, "vs": [iv]})
            pr["values"] = pr["values"] + extra
        # container-level `optional_fields`: Option fields become optional, an Option BEHIND a wrapper must not (serde writes `null` for it)
        W = lambda w, t: {"k": "wrap", "w": w, "t": t}
        ofs = []
        for mode in ("optional", "nullable"):
            of = {"kind": "struct", "name": f"X{i}OF{mode[0]}", "shape": "named", "attrs": {"optional_fields": mode}, "generics": [],
                  "fields": [{"name": "a", "ty": OPT(P("u8")), "attrs": {"skip_ser_if_none": True, "default": True}},
                             {"name": "parent", "ty": W("box", OPT(P("u32"))), "attrs": {}},
                             {"name": "guarded", "ty": W("mutex", OPT(P("String"))), "attrs": {}},
                             {"name": "shared", "ty": W("arc", OPT(N(L["name"]))), "attrs": {}},
                             {"name": "plain", "ty": P("bool"), "attrs": {}}]}
            items.append(of)
            ofs.append(of)
        imap = {x["name"]: x for x in items}
        for of in ofs:
            nones = {"k": "struct", "vs": [{"k": "none"}, {"k": "none"}, {"k": "none"}, {"k": "none"}, {"k": "bool", "b": True}]}
            probes.append({"ty": N(of["name"]), "values": [nones] + g.all_variant_values(N(of["name"]), imap)})
        # a struct that flattens two enums, flattened in turn as the ONLY content of another struct (parentheses of the inner unions)
        mid = {"kind": "struct", "name": f"X{i}Mid", "shape": "named", "attrs": {}, "generics": [],
               "fields": [{"name": "e1", "ty": N(XE["name"]), "attrs": {"flatten": True}}, {"name": "e2", "ty": N(IE["name"]), "attrs": {"flatten": True}}]}
        outer = {"kind": "struct", "name": f"X{i}Outer", "shape": "named", "attrs": {}, "generics": [], "fields": [{"name": "mid", "ty": N(mid["name"]), "attrs": {"flatten": True}}]}
        outer2 = {"kind": "struct", "name": f"X{i}Outer2", "shape": "named", "attrs": {}, "generics": [],
                  "fields": [{"name": "own", "ty": P("u8"), "attrs": {}}, {"name": "mid", "ty": N(mid["name"]), "attrs": {"flatten": True}}]}
        single = {"kind": "struct", "name": f"X{i}Single", "shape": "named", "attrs": {}, "generics": [], "fields": [{"name": "e", "ty": N(IE["name"]), "attrs": {"flatten": True}}]}
        # a flattened enum behind a pointer type, next to an own field (the parentheses of the union must survive the wrapper)
        W2 = lambda w, t: {"k": "wrap", "w": w, "t": t}
        boxed = {"kind": "struct", "name": f"X{i}Boxed", "shape": "named", "attrs": {}, "generics": [],
                 "fields": [{"name": "own", "ty": P("u8"), "attrs": {}}, {"name": "e", "ty": W2(["box", "arc", "rc"][i % 3], N(IE["name"])), "attrs": {"flatten": True}}]}
        boxed2 = {"kind": "struct", "name": f"X{i}Boxed2", "shape": "named", "attrs": {}, "generics": [],
                  "fields": [{"name": "own", "ty": P("u8"), "attrs": {}}, {"name": "m", "ty": W2("box", N(mid["name"])), "attrs": {"flatten": True}}]}
        items += [mid, outer, outer2, single, boxed, boxed2]
        imap = {x["name"]: x for x in items}
        for it_ in (mid, outer, outer2, single, boxed, boxed2):
            probes.append({"ty": N(it_["name"]), "values": g.all_variant_values(N(it_["name"]), imap)})
        progs.append({"items": items, "probes": probes + inner_probes})
    return progs


def uses_raw(prog):
    s = json.dumps(prog["items"])
    return '"type": "' in s


def fragment_programs(ctx):
    """programs inside the fragment of the end-to-end theorem C01_items_sound: every struct shape and enum representation,
    rename / rename_all / rename_all_fields / tag / content / skip / per-variant untagged / optional / optional_fields, generic items,
    library types over earlier items; no flatten / inline / as / type"""
    rng = random.Random(ctx.seed * 19 + 6)
    g = gen_corpus.Gen(rng)
    RULES = gen_corpus.RULES
    progs = []
    for i in range(14 if ctx.quick else 80):
        items, pool = [], []
        for k in range(rng.choice([3, 4, 5, 6])):
            name = f"F{i}_{k}"
            attrs = {}
            gens = rng.choice([[], [], ["T"], ["T", "E"], ["V", "K"]])
            gpool = pool + [PARAM(p) for p in gens]
            if rng.random() < 0.3: attrs["rename"] = f"Ren{i}_{k}"
            def fld(nm):
                g.used_names = getattr(g, "used_names", set())
                f = g.field(nm, g.ty(2, gpool), allow=("rename", "skip", "optional") if nm is not None else ("skip",))
                f["attrs"].pop("docs", None)
                return f
            if rng.random() < 0.5:
                shape = rng.choice(["named", "named", "tuple", "newtype", "unit", "empty_named", "empty_tuple"])
                it = {"kind": "struct", "name": name, "attrs": attrs, "generics": [], "shape": "named", "fields": []}
                g.used_names = set()
                if shape == "named":
                    it["fields"] = [fld(nm) for nm in rng.sample([n for n in gen_corpus.FIELD_NAMES if n.replace("r#", "") not in ("tag", "$kind")], rng.choice([1, 2, 3, 4]))]
                    if rng.random() < 0.4: attrs["rename_all"] = rng.choice(RULES)
                    if rng.random() < 0.15: attrs["tag"] = rng.choice(["tag", "$kind"])
                    if (rng.random() < 0.25 or (i + k) % 4 == 0) and not gens:
                        # the container's `optional_fields`: every Option field becomes `name?:`, so serde has to leave out its `None`
                        attrs["optional_fields"] = rng.choice(["optional", "nullable"])
                        for f_ in it["fields"]:
                            if f_["ty"]["k"] == "option" and not f_["attrs"].get("skip") and (attrs["optional_fields"] == "optional" or rng.random() < 0.5):
                                f_["attrs"]["skip_ser_if_none"] = True
                                f_["attrs"]["default"] = True
                elif shape == "tuple":
                    it["shape"], it["fields"] = "tuple", [fld(None) for _ in range(rng.choice([2, 3]))]
                elif shape == "newtype":
                    it["shape"], it["fields"] = "tuple", [{"name": None, "ty": g.ty(2, gpool), "attrs": {}}]
                elif shape == "unit":
                    it["shape"] = "unit"
                elif shape == "empty_tuple":
                    it["shape"] = "tuple"
            else:
                repr_ = rng.choice(["external", "external", "internal", "adjacent", "untagged"])
                it = {"kind": "enum", "name": name, "attrs": attrs, "generics": [], "variants": []}
                if repr_ == "internal": attrs["tag"] = rng.choice(["type", "t"])
                if repr_ == "adjacent": attrs["tag"], attrs["content"] = "t", "c"
                if repr_ == "untagged": attrs["untagged"] = True
                if rng.random() < 0.4: attrs["rename_all"] = rng.choice(RULES)
                if rng.random() < 0.3: attrs["rename_all_fields"] = rng.choice(RULES)
                for vn in rng.sample(gen_corpus.VARIANT_NAMES, rng.choice([1, 2, 3, 4])):
                    g.used_names = set()
                    sh = rng.choice(["unit", "struct", "struct"] if repr_ == "internal" else ["unit", "newtype", "tuple", "struct"])
                    v = {"name": vn, "attrs": {}, "shape": "unit", "fields": []}
                    if sh == "newtype":
                        v["shape"], v["fields"] = "tuple", [{"name": None, "ty": g.ty(2, gpool), "attrs": {}}]
                    elif sh == "tuple":
                        v["shape"], v["fields"] = "tuple", [fld(None) for _ in range(rng.choice([2, 3]))]
                    elif sh == "struct":
                        v["shape"] = "named"
                        v["fields"] = [fld(nm) for nm in rng.sample([n for n in gen_corpus.FIELD_NAMES if n.replace("r#", "") not in ("t", "c", "type", "tag", "$kind")], rng.choice([1, 2, 3]))]
                        if rng.random() < 0.3: v["attrs"]["rename_all"] = rng.choice(RULES)
                    if rng.random() < 0.15: v["attrs"]["rename"] = f"v{len(it['variants'])}-renamed"
                    it["variants"].append(v)
                if repr_ not in ("untagged",) and rng.random() < 0.15 and it["variants"][-1]["shape"] != "unit":
                    it["variants"][-1]["attrs"]["untagged"] = True
            # every type parameter must be used; instantiate generic items at closed types
            used = json.dumps(it)
            live = [p for p in gens if f'"n": "{p}"' in used]
            it["generics"] = [{"name": p} for p in live]
            items.append(it)
            if live:
                closed = [t for t in pool if t["k"] != "named" or not t["args"] or True] or [P("u8")]
                for _ in range(2):
                    pool.append(N(name, *[rng.choice([P("u8"), P("String"), VEC(P("bool"))] + closed[:3]) for _ in live]))
            else:
                pool.append(N(name))
        imap = {x["name"]: x for x in items}
        insts = {}
        for t in pool:
            insts.setdefault(t["id"], []).append(t)
        probes = []
        for x in items:
            for t in insts.get(x["name"], [])[:2]:
                probes.append({"ty": t, "values": g.all_variant_values(t, imap)[:4]})
        progs.append({"items": items, "probes": probes})
    return progs


def tree_stream(ctx, c, qs, meta):
    """the tree-level derive of the end-to-end theorem vs the real declarations"""
    fprogs = fragment_programs(ctx)
    freal, _ = e2e.build_and_run(ctx, "c01t", fprogs)
    sets = [(c.programs, c.real, "corpus")]
    if freal is not None:
        sets.append((fprogs, freal, "fragment"))
        fmodel = e2e.run_model_programs(fprogs, c.chars, os.path.join(vlib.SCRATCH, "e2e-c01t"))
        for prog, R, M in zip(fprogs, freal, fmodel or []):
            for pr, r, m in zip(prog["probes"], R, M):
                for k in ("name", "inline", "decl", "values"):
                    a, b = r.get(k), m.get(k)
                    if k == "values":
                        a, b = [e2e.jnorm(x) for x in a or []], [e2e.jnorm(x) for x in b or []]
                    if a != b:
                        ctx.broken.append(f"compiled correspondence (fragment programs): {pr['ty']['id']} {k}: impl={json.dumps(r.get(k))[:300]} model={json.dumps(m.get(k))[:300]}")
                        break
        # the real serde output of fragment programs is also judged by the oracle
        for xi, (prog, R) in enumerate(zip(fprogs, freal)):
            decls = [r["decl"]["ok"] for r in R if "ok" in r.get("decl", {})]
            for qi, (pr, r) in enumerate(zip(prog["probes"], R)):
                for vi, jtxt in enumerate(r.get("values", [])):
                    if jtxt is not None and "ok" in r.get("name", {}) and not corpus.has_dup_keys(jtxt):
                        qs.append({"op": "oracle_member", "decls": decls, "ty": r["name"]["ok"], "json": jtxt})
                        meta.append((("f", xi), qi, vi, "name"))
    lines, back, ilines = [c.chars], [], []
    for progs, real, tag in sets:
        for pi, (prog, R) in enumerate(zip(progs, real)):
            byname = {}
            for pr, r in zip(prog["probes"], R):
                if pr["ty"]["k"] == "named" and "ok" in r.get("decl", {}):      # decl() does not depend on the instantiation
                    byname.setdefault(pr["ty"]["id"], r["decl"]["ok"])
            lines.append({"op": "tree_check", "items": prog["items"], "decls": [byname.get(it["name"], "") for it in prog["items"]]})
            back.append((tag, pi, prog))
            ilines.append({"op": "inline_check", "items": prog["items"], "decls": [byname.get(it["name"], "") for it in prog["items"]]})
    res = vlib.run_model(lines)
    # C01_inline_sound / C14_checked_unfolding: the REAL declarations (with `inline` marks) must be accepted by the proven-sound unfolding
    # test as unfoldings of the tree-level declarations of the program without the marks
    ires = vlib.run_model([c.chars] + ilines)
    n_marked = n_iprogs = 0
    for (tag, pi, prog), r in zip(back, (ires or [None])[1:]):
        if not r.get("frag") or not r.get("sub"):
            continue
        n_iprogs += 1
        n_marked += r.get("marked", 0)
        if not r.get("wsd"):
            ctx.broken.append(f"tree-level declarations are not well-scoped (hypothesis WSD of the unfolding theorem): {tag} program {pi}")
        if not r.get("unf"):
            bad = [it for it in prog["items"] if it["name"] in r.get("bad", [])]
            ctx.broken.append(f"a real declaration is not an unfolding of the tree-level declaration of the program without its inline marks "
                              f"(tie of C01_inline_sound): {tag} program {pi} items {r.get('bad')}: {json.dumps(bad)[:500]}")
    if ires is None:
        ctx.broken.append("inline_check: model driver unavailable")
    ctx.stream("real declarations as unfoldings (inline)", n_iprogs, n_marked,
               "the same programs: the `inline` marks are removed, the largest closed sub-program inside the fragment is taken, its tree-level declarations D are computed, "
               "and the parsed REAL declarations D' of the marked program are submitted to `declsUnfB D 40 D D'` (proven sound for `DeclsUnf`) together with `wsdB D`; "
               "non-trivial = items with an inline mark inside such a sub-program", [], {"programs": n_iprogs, "marked_items": n_marked})
    n_in = n_items = n_frag = 0
    if res is None:
        ctx.broken.append("tree_check: model driver unavailable")
        return fprogs
    for (tag, pi, prog), r in zip(back, res[1:]):
        n_frag += 1 if r.get("frag") and r.get("sub") else 0
        for it, row in zip(prog["items"], r.get("rows", [])):
            n_items += 1
            if not row.get("in"):
                continue
            n_in += 1
            if not row.get("eq"):
                ctx.broken.append(f"tree-level derive (model of C01_items_sound) differs from the parsed real decl(): {tag} program {pi} item {it['name']}: {json.dumps(it)[:400]}")
    ctx.stream("tree derive vs real declarations", n_items, n_in,
               "every item of every corpus program and of dedicated fragment programs: the largest closed sub-program inside the fragment of C01_items_sound is computed, `fragB` evaluated on it, "
               "and the tree-level derive of each of its items compared (modulo union flattening / parentheses) with the parsed REAL decl(); non-trivial = items inside the fragment",
               [], {"programs_with_a_fragment": n_frag, "items_in_fragment": n_in})
    return fprogs


def dup_props(decl_texts):
    """True if some object type in the given declarations / types lists a property name twice (a flattened field colliding with an
    own field): such a program is not a valid TypeScript type to begin with; outside the property's domain"""
    from props import tsgrammar
    def walk(t):
        if not isinstance(t, tuple):
            return False
        if t[0] == "object":
            keys = [m[1] for m in t[1] if m[0] == "prop"]
            if len(keys) != len(set(keys)):
                return True
            return any(walk(m[3]) if m[0] == "prop" else (walk(m[2]) or walk(m[4])) for m in t[1])
        return any(walk(y) for x in t[1:] for y in (x if isinstance(x, list) else [x]))
    for d in decl_texts:
        try:
            if d.startswith("type "):
                mod = tsgrammar.parse_module("export " + d + "\n")
                if any(walk(x[2]) for x in mod["decls"]):
                    return True
            elif walk(tsgrammar.parse_type(d)):
                return True
        except tsgrammar.TsSyntaxError:
            pass
    return False


def xdecls(xprogs, xreal, xi):
    return [r["decl"]["ok"] for r in xreal[xi] if "ok" in r.get("decl", {})]


def run(ctx):
    proof = vlib.lean_check(ctx)
    c = corpus.get(ctx)
    if c.real is None:
        vlib.settle(ctx)
        return ctx.finish(proof=proof)
    corpus.report_disagreements(ctx, c, ["name", "inline", "decl", "decl_concrete", "values"], "C01")
    # oracle: real serde JSON must inhabit the real declared type (names resolved through the real declarations)
    qs, meta = [], []
    skipped_dup = 0
    for pi, prog in enumerate(c.programs):
        decls = corpus.item_decls(c, pi)
        for qi, (pr, r) in enumerate(zip(prog["probes"], c.real[pi])):
            if "ok" not in r.get("name", {}):
                continue
            for vi, jtxt in enumerate(r.get("values", [])):
                if jtxt is None:
                    continue
                if corpus.has_dup_keys(jtxt):
                    skipped_dup += 1
                    continue
                qs.append({"op": "oracle_member", "decls": decls, "ty": r["name"]["ok"], "json": jtxt})
                meta.append((pi, qi, vi, "name"))
                if "ok" in r.get("inline", {}):
                    qs.append({"op": "oracle_member", "decls": decls, "ty": r["inline"]["ok"], "json": jtxt})
                    meta.append((pi, qi, vi, "inline"))
    n_corpus_q = len(qs)
    xprogs = tagged_newtype_programs(ctx)
    xreal, _ = e2e.build_and_run(ctx, "c01x", xprogs)
    if xreal is not None:
        xmodel = e2e.run_model_programs(xprogs, c.chars, os.path.join(vlib.SCRATCH, "e2e-c01x"))
        for prog, R, M in zip(xprogs, xreal, xmodel or []):
            for pr, r, m in zip(prog["probes"], R, M):
                for k in ("name", "inline", "decl", "values"):
                    a, b = r.get(k), m.get(k)
                    if k == "values":
                        a, b = [e2e.jnorm(x) for x in a or []], [e2e.jnorm(x) for x in b or []]
                    if a != b:
                        ctx.broken.append(f"compiled correspondence (tagged newtype variants): {pr['ty']['id']} {k}: impl={json.dumps(r.get(k))[:300]} model={json.dumps(m.get(k))[:300]}")
                        break
        for xi, (prog, R) in enumerate(zip(xprogs, xreal)):
            decls = [r["decl"]["ok"] for r in R if "ok" in r.get("decl", {})]
            # the inner items are not probed: take their declarations from the model side of the same run
            for qi, (pr, r) in enumerate(zip(prog["probes"], R)):
                for vi, jtxt in enumerate(r.get("values", [])):
                    if jtxt is None or "ok" not in r.get("name", {}):
                        continue
                    qs.append({"op": "oracle_member", "decls": xdecls(xprogs, xreal, xi), "ty": r["name"]["ok"], "json": jtxt})
                    meta.append((("x", xi), qi, vi, "name"))
    fprogs = tree_stream(ctx, c, qs, meta)
    res = vlib.run_model(qs) if qs else []
    fails = unparsed = 0
    known_hit = {}
    for q, (pi, qi, vi, which), v in zip(qs, meta, res or []):
        if v.get("ok") is True and v.get("decls_parsed") == v.get("decls_given"):
            continue
        prog = (xprogs if pi[0] == "x" else fprogs)[pi[1]] if isinstance(pi, tuple) else c.programs[pi]
        case = {"items": prog["items"], "probe": prog["probes"][qi]["ty"], "value": prog["probes"][qi]["values"][vi], "via": which + "()"}
        if "ok" in v and v.get("decls_parsed") != v.get("decls_given"):
            # which declaration is it? an independent grammar decides whether it is TypeScript at all
            from props import tsgrammar
            badd = []
            for d in q["decls"]:
                try:
                    tsgrammar.parse_module("export " + d + "\n")
                except tsgrammar.TsSyntaxError as e:
                    badd.append((d, str(e)))
            if badd:
                fails += 1
                if fails <= 5:
                    ctx.violation("a declaration ts-rs generates is not TypeScript: " + badd[0][1], case, {"declaration": badd[0][0]})
                continue
        if "ok" not in v or v.get("decls_parsed") != v.get("decls_given"):
            unparsed += 1
            if unparsed <= 3:
                ctx.broken.append(f"oracle cannot read the implementation's TypeScript: {json.dumps(v)[:200]} for {q['ty'][:200]} / decls {q['decls'][:2]}")
            continue
        if dup_props(q["decls"] + [q["ty"]]):
            skipped_dup += 1          # duplicate property names (own field vs flattened field): not a type
            continue
        fails += 1
        if fails <= 5:
            ctx.violation(f"a serialized value does not inhabit the TypeScript type ts-rs generates ({which}())", case,
                          {"ts_type": q["ty"], "declarations": q["decls"], "serde_json": q["json"]})
    ctx.stream("tagged newtype variants, by name and inlined", len(qs) - n_corpus_q, len(xprogs),
               "internally and adjacently tagged enums whose newtype variants hold a struct, an internally tagged enum, an externally tagged enum with struct variants (adjacent: also Vec / Option of them), "
               "with and without #[ts(inline)]; every inner variant under every outer variant; real serde_json output judged against the real declarations; model = implementation", [], {})
    ctx.stream("compiled corpus (derive(TS) + serde): values vs declared types", n_corpus_q, len({(m[0], m[1]) for m in meta if not isinstance(m[0], tuple)}),
               f"{len(c.programs)} generated programs ({c.n_probes} probes): structs (named/tuple/newtype/unit/empty) and enums (external/internal/adjacent/untagged, "
               "per-variant untagged/skip) with rename, rename_all, rename_all_fields, tag, skip, flatten, inline, optional (+nullable), as, docs, generics with defaults, "
               "library types to depth 3; every non-skipped variant x2 values; real serde_json output judged against the parsed real decl()/name()/inline(); "
               "non-trivial = distinct probes with values",
               [{"type": qs[0]["ty"], "json": qs[0]["json"]}] if qs else [], {"oracle_failures": fails, "skipped_duplicate_keys": skipped_dup,
                "model_disagreements": len(c.disagreements), "production_tags": c.tags})
    ctx.assumptions += ["TypeScript meaning = Model/Ts.lean Member (exact objects, bigint = JSON integer, A & B = disjoint merge on objects)",
                        "serde = Model/Serde.lean + Model/Builtin.lean serB, validated against the real serde on every corpus value",
                        "Supported fragment: no #[ts(type=..)] overrides; plain #[ts(optional)] paired with skip_serializing_if; JSON objects without duplicate keys"]
    vlib.settle(ctx)
    return ctx.finish(proof=proof)


def replay(ctx, obj):
    print(json.dumps(obj.get("case"), indent=1)[:3000])
    return 0
