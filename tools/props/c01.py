"""C01 — serialized values inhabit the generated TypeScript type."""
import json, os, random
import vlib, e2e, gen_corpus
from gen_corpus import P, N, OPT, VEC
from props import corpus


def tagged_newtype_programs(ctx):
    """newtype variants of internally / adjacently tagged enums over struct- and union-typed fields, by name and with `#[ts(inline)]`
    (the shared corpus keeps `inline` away from these positions because of a C03 finding about their imports)"""
    rng = random.Random(ctx.seed * 13 + 2)
    progs = []
    for i in range(2 if ctx.quick else 12):
        L = {"kind": "struct", "name": f"X{i}L", "shape": "named", "attrs": {}, "generics": [], "fields": [{"name": "x", "ty": P("u8"), "attrs": {}}, {"name": "o", "ty": OPT(P("String")), "attrs": {}}]}
        IE = {"kind": "enum", "name": f"X{i}IE", "attrs": {"tag": "kind"}, "generics": [],
              "variants": [{"name": "Circle", "shape": "named", "fields": [{"name": "r", "ty": P("u32"), "attrs": {}}], "attrs": {}},
                           {"name": "Square", "shape": "named", "fields": [{"name": "side", "ty": P("u32"), "attrs": {}}], "attrs": {}},
                           {"name": "Dot", "shape": "unit", "fields": [], "attrs": {}}]}
        XE = {"kind": "enum", "name": f"X{i}XE", "attrs": {}, "generics": [],
              "variants": [{"name": "A", "shape": "named", "fields": [{"name": "a", "ty": P("bool"), "attrs": {}}], "attrs": {}},
                           {"name": "B", "shape": "named", "fields": [{"name": "b", "ty": N(L["name"]), "attrs": {}}], "attrs": {}}]}
        items = [L, IE, XE]
        outs = []
        for repr_, attrs in (("int", {"tag": "type"}), ("adj", {"tag": "t", "content": "c"})):
            for inl in (False, True):
                vs = []
                for k, inner in enumerate([N(L["name"]), N(IE["name"]), N(XE["name"])] + ([VEC(N(IE["name"])), OPT(N(L["name"]))] if repr_ == "adj" else [])):
                    vs.append({"name": f"V{k}", "shape": "tuple", "fields": [{"name": None, "ty": inner, "attrs": {"inline": True} if inl else {}}], "attrs": {}})
                vs.append({"name": "Clear", "shape": "unit", "fields": [], "attrs": {}})
                outs.append({"kind": "enum", "name": f"X{i}O{repr_}{'I' if inl else 'N'}", "attrs": dict(attrs), "generics": [], "variants": vs})
        items += outs
        imap = {x["name"]: x for x in items}
        g = gen_corpus.Gen(rng)
        probes = [{"ty": N(o["name"]), "values": g.all_variant_values(N(o["name"]), imap)} for o in outs]
        inner_probes = [{"ty": N(x["name"]), "values": []} for x in (L, IE, XE)]
        # every inner variant under every outer variant
        for pr, o in zip(probes, outs):
            extra = []
            for vi_, v in enumerate(o["variants"]):
                if v["shape"] == "tuple" and v["fields"][0]["ty"]["k"] == "named" and imap[v["fields"][0]["ty"]["id"]]["kind"] == "enum":
                    for iv in g.all_variant_values(v["fields"][0]["ty"], imap):
                        extra.append({"k": "variant", "i": vi_, "vs": [iv]})
            pr["values"] = pr["values"] + extra
        progs.append({"items": items, "probes": probes + inner_probes})
    return progs


def uses_raw(prog):
    s = json.dumps(prog["items"])
    return '"type": "' in s


def xdecls(xprogs, xreal, xi):
    return [r["decl"]["ok"] for r in xreal[xi] if "ok" in r.get("decl", {})]


def run(ctx):
    proof = vlib.lean_check(ctx)
    c = corpus.get(ctx)
    if c.real is None:
        vlib.settle(ctx)
        return ctx.finish(proof=proof)
    corpus.report_disagreements(ctx, c, ["name", "inline", "decl", "decl_concrete", "values"], "C01")
    # oracle: real serde JSON must inhabit the real declared type (names resolved through the real declarations)
    qs, meta = [], []
    skipped_dup = 0
    for pi, prog in enumerate(c.programs):
        decls = corpus.item_decls(c, pi)
        for qi, (pr, r) in enumerate(zip(prog["probes"], c.real[pi])):
            if "ok" not in r.get("name", {}):
                continue
            for vi, jtxt in enumerate(r.get("values", [])):
                if jtxt is None:
                    continue
                if corpus.has_dup_keys(jtxt):
                    skipped_dup += 1
                    continue
                qs.append({"op": "oracle_member", "decls": decls, "ty": r["name"]["ok"], "json": jtxt})
                meta.append((pi, qi, vi, "name"))
                if "ok" in r.get("inline", {}):
                    qs.append({"op": "oracle_member", "decls": decls, "ty": r["inline"]["ok"], "json": jtxt})
                    meta.append((pi, qi, vi, "inline"))
    n_corpus_q = len(qs)
    xprogs = tagged_newtype_programs(ctx)
    xreal, _ = e2e.build_and_run(ctx, "c01x", xprogs)
    if xreal is not None:
        xmodel = e2e.run_model_programs(xprogs, c.chars, os.path.join(vlib.SCRATCH, "e2e-c01x"))
        for prog, R, M in zip(xprogs, xreal, xmodel or []):
            for pr, r, m in zip(prog["probes"], R, M):
                for k in ("name", "inline", "decl", "values"):
                    a, b = r.get(k), m.get(k)
                    if k == "values":
                        a, b = [e2e.jnorm(x) for x in a or []], [e2e.jnorm(x) for x in b or []]
                    if a != b:
                        ctx.broken.append(f"compiled correspondence (tagged newtype variants): {pr['ty']['id']} {k}: impl={json.dumps(r.get(k))[:300]} model={json.dumps(m.get(k))[:300]}")
                        break
        for xi, (prog, R) in enumerate(zip(xprogs, xreal)):
            decls = [r["decl"]["ok"] for r in R if "ok" in r.get("decl", {})]
            # the inner items are not probed: take their declarations from the model side of the same run
            for qi, (pr, r) in enumerate(zip(prog["probes"], R)):
                for vi, jtxt in enumerate(r.get("values", [])):
                    if jtxt is None or "ok" not in r.get("name", {}):
                        continue
                    qs.append({"op": "oracle_member", "decls": xdecls(xprogs, xreal, xi), "ty": r["name"]["ok"], "json": jtxt})
                    meta.append((("x", xi), qi, vi, "name"))
    res = vlib.run_model(qs) if qs else []
    fails = unparsed = 0
    known_hit = {}
    for q, (pi, qi, vi, which), v in zip(qs, meta, res or []):
        if v.get("ok") is True and v.get("decls_parsed") == v.get("decls_given"):
            continue
        prog = xprogs[pi[1]] if isinstance(pi, tuple) else c.programs[pi]
        case = {"items": prog["items"], "probe": prog["probes"][qi]["ty"], "value": prog["probes"][qi]["values"][vi], "via": which + "()"}
        if "ok" not in v or v.get("decls_parsed") != v.get("decls_given"):
            unparsed += 1
            if unparsed <= 3:
                ctx.broken.append(f"oracle cannot read the implementation's TypeScript: {json.dumps(v)[:200]} for {q['ty'][:200]} / decls {q['decls'][:2]}")
            continue
        fails += 1
        if fails <= 5:
            ctx.violation(f"a serialized value does not inhabit the TypeScript type ts-rs generates ({which}())", case,
                          {"ts_type": q["ty"], "declarations": q["decls"], "serde_json": q["json"]})
    ctx.stream("tagged newtype variants, by name and inlined", len(qs) - n_corpus_q, len(xprogs),
               "internally and adjacently tagged enums whose newtype variants hold a struct, an internally tagged enum, an externally tagged enum with struct variants (adjacent: also Vec / Option of them), "
               "with and without #[ts(inline)]; every inner variant under every outer variant; real serde_json output judged against the real declarations; model = implementation", [], {})
    ctx.stream("compiled corpus (derive(TS) + serde): values vs declared types", n_corpus_q, len({(m[0], m[1]) for m in meta if not isinstance(m[0], tuple)}),
               f"{len(c.programs)} generated programs ({c.n_probes} probes): structs (named/tuple/newtype/unit/empty) and enums (external/internal/adjacent/untagged, "
               "per-variant untagged/skip) with rename, rename_all, rename_all_fields, tag, skip, flatten, inline, optional (+nullable), as, docs, generics with defaults, "
               "library types to depth 3; every non-skipped variant x2 values; real serde_json output judged against the parsed real decl()/name()/inline(); "
               "non-trivial = distinct probes with values",
               [{"type": qs[0]["ty"], "json": qs[0]["json"]}] if qs else [], {"oracle_failures": fails, "skipped_duplicate_keys": skipped_dup,
                "model_disagreements": len(c.disagreements), "production_tags": c.tags})
    ctx.assumptions += ["TypeScript meaning = Model/Ts.lean Member (exact objects, bigint = JSON integer, A & B = disjoint merge on objects)",
                        "serde = Model/Serde.lean + Model/Builtin.lean serB, validated against the real serde on every corpus value",
                        "Supported fragment: no #[ts(type=..)] overrides; plain #[ts(optional)] paired with skip_serializing_if; JSON objects without duplicate keys"]
    vlib.settle(ctx)
    return ctx.finish(proof=proof)


def replay(ctx, obj):
    print(json.dumps(obj.get("case"), indent=1)[:3000])
    return 0
