"""C01 — serialized values inhabit the generated TypeScript type."""
import json, os
import vlib
from props import corpus


def uses_raw(prog):
    s = json.dumps(prog["items"])
    return '"type": "' in s


def run(ctx):
    proof = vlib.lean_check(ctx)
    c = corpus.get(ctx)
    if c.real is None:
        vlib.settle(ctx)
        return ctx.finish(proof=proof)
    corpus.report_disagreements(ctx, c, ["name", "inline", "decl", "decl_concrete", "values"], "C01")
    # oracle: real serde JSON must inhabit the real declared type (names resolved through the real declarations)
    qs, meta = [], []
    skipped_dup = 0
    for pi, prog in enumerate(c.programs):
        decls = corpus.item_decls(c, pi)
        for qi, (pr, r) in enumerate(zip(prog["probes"], c.real[pi])):
            if "ok" not in r.get("name", {}):
                continue
            for vi, jtxt in enumerate(r.get("values", [])):
                if jtxt is None:
                    continue
                if corpus.has_dup_keys(jtxt):
                    skipped_dup += 1
                    continue
                qs.append({"op": "oracle_member", "decls": decls, "ty": r["name"]["ok"], "json": jtxt})
                meta.append((pi, qi, vi, "name"))
                if "ok" in r.get("inline", {}):
                    qs.append({"op": "oracle_member", "decls": decls, "ty": r["inline"]["ok"], "json": jtxt})
                    meta.append((pi, qi, vi, "inline"))
    res = vlib.run_model(qs) if qs else []
    fails = unparsed = 0
    known_hit = {}
    for q, (pi, qi, vi, which), v in zip(qs, meta, res or []):
        if v.get("ok") is True and v.get("decls_parsed") == v.get("decls_given"):
            continue
        prog = c.programs[pi]
        case = {"items": prog["items"], "probe": prog["probes"][qi]["ty"], "value": prog["probes"][qi]["values"][vi], "via": which + "()"}
        if "ok" not in v or v.get("decls_parsed") != v.get("decls_given"):
            unparsed += 1
            if unparsed <= 3:
                ctx.broken.append(f"oracle cannot read the implementation's TypeScript: {json.dumps(v)[:200]} for {q['ty'][:200]} / decls {q['decls'][:2]}")
            continue
        fails += 1
        if fails <= 5:
            ctx.violation(f"a serialized value does not inhabit the TypeScript type ts-rs generates ({which}())", case,
                          {"ts_type": q["ty"], "declarations": q["decls"], "serde_json": q["json"]})
    ctx.stream("compiled corpus (derive(TS) + serde): values vs declared types", len(qs), len({(m[0], m[1]) for m in meta}),
               f"{len(c.programs)} generated programs ({c.n_probes} probes): structs (named/tuple/newtype/unit/empty) and enums (external/internal/adjacent/untagged, "
               "per-variant untagged/skip) with rename, rename_all, rename_all_fields, tag, skip, flatten, inline, optional (+nullable), as, docs, generics with defaults, "
               "library types to depth 3; every non-skipped variant x2 values; real serde_json output judged against the parsed real decl()/name()/inline(); "
               "non-trivial = distinct probes with values",
               [{"type": qs[0]["ty"], "json": qs[0]["json"]}] if qs else [], {"oracle_failures": fails, "skipped_duplicate_keys": skipped_dup,
                "model_disagreements": len(c.disagreements), "production_tags": c.tags})
    ctx.assumptions += ["TypeScript meaning = Model/Ts.lean Member (exact objects, bigint = JSON integer, A & B = disjoint merge on objects)",
                        "serde = Model/Serde.lean + Model/Builtin.lean serB, validated against the real serde on every corpus value",
                        "Supported fragment: no #[ts(type=..)] overrides; plain #[ts(optional)] paired with skip_serializing_if; JSON objects without duplicate keys"]
    vlib.settle(ctx)
    return ctx.finish(proof=proof)


def replay(ctx, obj):
    print(json.dumps(obj.get("case"), indent=1)[:3000])
    return 0
