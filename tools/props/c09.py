"""C09 — rename_all yields the names serde puts on the wire, for every identifier."""
import itertools, json, os
import vlib

RULES = ["Lower", "Upper", "Camel", "Snake", "Pascal", "ScreamingSnake", "Kebab", "ScreamingKebab"]
ALPHA = ["a", "b", "A", "B", "_", "1", "é", "É", "ß"]


def idents(maxlen):
    for n in range(1, maxlen + 1):
        for t in itertools.product(ALPHA, repeat=n):
            yield "".join(t)


def run(ctx):
    proof = vlib.lean_check(ctx)
    binary = vlib.build_hookbin(ctx)
    maxlen = 4 if ctx.quick else 5
    extra = ["fooBar", "foo_bar", "FooBar", "Foo_Bar", "__", "_a", "a_", "a__b", "HTTPServer", "x1", "straße", "Évènement",
             "type", "r2d2", "A1b2", "_", "a_B", "XMLHttpRequest", "éa", "ßb", "Http_V2_Request", "_Hidden", "ǅx", "İi"]
    ids = extra + list(idents(maxlen))
    cases, jcases = [], []
    for pos in ("field", "variant"):
        cases += [["inflect_" + pos, r, s] for s in ids for r in RULES]
        jcases += [{"op": "inflect_" + pos, "rule": r, "s": s} for s in ids for r in RULES]
    real = vlib.run_macro(ctx, cases)
    if real is None or binary is None:
        vlib.settle(ctx)
        return ctx.finish(proof=proof)
    chars = vlib.char_table(binary, "".join(ALPHA) + "".join(extra))
    model = vlib.run_model([chars] + jcases)
    model = model[1:] if model else None
    dis = vlib.compare(ctx, "inflect", jcases, real, model)
    # oracle: the implementation's name vs serde's name (serde model; validated against the real serde by the compiled stream)
    q = [{"op": c["op"].replace("inflect_", "serde_"), "rule": c["rule"], "s": c["s"]} for c in jcases]
    serde = vlib.run_model([chars] + q)[1:]
    fails = serde_panics = 0
    for c, impl, sd in zip(jcases, real, serde):
        if "panic" in sd:
            serde_panics += 1          # derive(Serialize) does not compile: nothing on the wire
            if "panic" in impl:
                ctx.violation("Inflection panics (C16 territory, reported here because C09 observes it)", c, {"impl": impl})
            continue
        if impl != sd:
            fails += 1
            if fails <= 5:
                ctx.violation(f"rename_all name differs from serde's ({c['op']}, {c['rule']})",
                              {"pos": c["op"][8:], "rule": c["rule"], "ident": c["s"]}, {"impl": impl, "serde": sd})
    nontriv = len({(c["op"], c["s"], c["rule"]) for c, r in zip(jcases, real) if r.get("ok") not in (None, c["s"])})
    ctx.stream("inflect (in-process apply_to_field/apply_to_variant vs model; implementation vs serde-model oracle)", len(cases), nontriv,
               f"all identifiers over {ALPHA} up to length {maxlen} plus {len(extra)} hand-picked x 8 rules x {{field, variant}}; non-trivial = output differs from input",
               [{"case": jcases[i], "impl": real[i]} for i in (3, 100, len(jcases) - 5)],
               {"model_disagreements": len(dis), "impl_vs_serde_failures": fails, "serde_would_panic": serde_panics,
                "panics": sum(1 for r in real if "panic" in r)})
    e2e(ctx, chars)
    ctx.assumptions += [
        "serde's renaming = Model/Case.lean serdeField/serdeVariant (transcribed from serde_derive 1.0.215 case.rs; validated against the real serde by the compiled stream)",
        "Unicode case tables are parameters (CharOps); theorems hold for every instantiation; the driver instantiates them from Rust's own char methods for the working alphabet",
    ]
    vlib.settle(ctx)
    return ctx.finish(proof=proof)


def e2e(ctx, chars):
    """Compiled stream: real derive(TS) + real serde on the same identifiers; names compared position-wise."""
    from props import c09_e2e
    c09_e2e.run(ctx, chars)


def replay(ctx, obj):
    c = obj["case"]
    rr = vlib.run_macro(ctx, [["inflect_" + c["pos"], c["rule"], c["ident"]]], tag="replay")
    sd = vlib.run_model([{"op": "serde_" + c["pos"], "rule": c["rule"], "s": c["ident"]}])
    print(json.dumps({"case": c, "impl": rr, "serde_model(ascii tables)": sd}, ensure_ascii=False))
    return 1 if rr and rr[0] != sd[0] else 0
