"""C17 — export failures are returned as errors and do not poison later exports."""
import json, os, posixpath
import vlib
from props import uni

ENVS = [None, "$ROOT/abs/out", "rel/out"]


def loc_of(types, t, base):
    """$ROOT-relative location of type t's file below the export dir `base` (lexical)"""
    return posixpath.normpath(posixpath.join(base, types[t]["output_path"]))


def base_of(dod, root):
    d = dod[len(root):].lstrip("/") if dod.startswith(root) else dod
    return posixpath.normpath(d)


def run(ctx):
    proof = vlib.lean_check(ctx)
    binary = uni.build(ctx)
    if binary is None:
        vlib.settle(ctx)
        return ctx.finish(proof=proof)
    root = os.path.join(vlib.SCRATCH, "u17")
    total = nontriv = 0
    seqs = [[("export_all", 7)], [("export", 3), ("export", 4), ("export_all", 6)], [("export_all", 2), ("export", 5), ("export_all", 23)],
            [("export_all", 9), ("export_all", 7)], [("export", 6), ("export", 9)], [("export_all", 17), ("export_all", 21), ("export", 24)]]
    if not ctx.quick:
        ex = [0, 1, 2, 3, 4, 5, 6, 7, 8, 9, 10, 11, 13, 17, 19, 21, 22, 23, 24]
        for _ in range(40):
            seqs.append([(ctx.rng.choice(["export", "export_all"]), ctx.rng.choice(ex)) for _ in range(ctx.rng.randint(1, 4))])
    known_hit = {}
    for env in ENVS:
        types, dod = uni.describe(binary, root, env)
        base = base_of(dod, root)
        hists, meta = [], []

        def H(steps):
            h = {"op": "uhist", "root": root, "steps": steps}
            if env is not None:
                h["env"] = env
            return h

        for seq in seqs:
            plain = [{"k": k, "t": t} for k, t in seq]
            hists.append(H(plain + [{"k": "snap"}]))
            meta.append(("fault-free", seq, None, None))
            for pos, (k, t) in enumerate(seq):
                targets = [t] if k == "export" else uni.reach(types, t)
                for victim in targets[:3]:
                    loc = loc_of(types, victim, base)
                    obstacles = [("target_is_dir", {"k": "mkdir", "p": "$ROOT/" + loc}, {"k": "rm", "p": "$ROOT/" + loc}),
                                 ("target_replaced_by_dir", {"k": "hide", "p": "$ROOT/" + loc}, {"k": "unhide", "p": "$ROOT/" + loc})]
                    par = posixpath.dirname(loc)
                    if par and par != base:
                        obstacles.append(("parent_is_file", {"k": "write", "p": "$ROOT/" + par, "s": "i am a file"}, {"k": "rm", "p": "$ROOT/" + par}))
                    elif pos == 0:
                        obstacles.append(("parent_is_file", {"k": "write", "p": "$ROOT/" + base, "s": "i am a file"}, {"k": "rm", "p": "$ROOT/" + base}))
                    for oname, ostep, undo in obstacles:
                        steps = plain[:pos] + [{"k": "snap"}, ostep, plain[pos], {"k": "snap"}, undo, plain[pos]] + plain[pos + 1:] + [{"k": "snap"}]
                        hists.append(H(steps))
                        meta.append((oname, seq, pos, victim))
        # non-removable failures: non-exportable roots, path climbing above the file-system root
        for k in ("export", "export_all", "export_all_to"):
            for t, why in ((25, "non_exportable"), (26, "non_exportable"), (27, "non_exportable"), (28, "non_exportable"), (15, "climbs_above_root"), (16, "climbs_above_root")):
                if t == 16 and env is not None:
                    continue     # PopRoot has exactly depth(default dir)+1 `..`; under the other settings it does not climb above `/`
                st = {"k": k, "t": t}
                if k == "export_all_to":
                    st["dir"] = "./" + base
                hists.append(H([{"k": "export_all", "t": 2}, {"k": "snap"}, st, {"k": "snap"}, {"k": "export_all", "t": 7}]))
                meta.append((why, [(k, t)], 1, t))
                # ... and in a process that has not exported anything yet (nothing the failing call reaches is there already)
                hists.append(H([{"k": "snap"}, {"k": "snap"}, st, {"k": "snap"}, {"k": "export_all", "t": 7}]))
                meta.append((why + "_fresh", [(k, t)], 1, t))
        real, model, dis = uni.run_both(ctx, binary, types, hists, f"obstacle histories env={env}")
        total += len(hists)
        # oracle on the implementation
        ref_tree = {}
        for h, r, m in zip(hists, real, meta):
            if m[0] == "fault-free":
                ref_tree[json.dumps(m[1])] = uni.tree_of(r)
        for h, r, m in zip(hists, real, meta):
            kind, seq, pos, victim = m
            if kind == "fault-free":
                if any(s != "ok" for s in r["steps"]):
                    ctx.violation("a step of a fault-free history failed", {"env": env, "steps": h["steps"]}, {"results": r["steps"]})
                continue
            nontriv += 1
            case = {"env": env, "kind": kind, "victim": types[victim]["name"], "steps": h["steps"]}
            if any(isinstance(s, dict) and s.get("panic") for s in r["steps"]) or r.get("poisoned"):
                ctx.violation("an export panicked (or poisoned the registry) instead of returning an error", case, {"results": r["steps"]})
                continue
            if kind.endswith("_fresh"):
                kind = kind[:-6]
                res = r["steps"][2]
                before, after = r["snaps"][1], r["snaps"][2]
                if not (isinstance(res, dict) and "err" in res) or before != after or r["steps"][4] != "ok":
                    e = next((e for e in ctx.known if e.get("match", {}).get("kind") == kind and e["match"].get("type") == types[victim]["name"]), None)
                    if e:
                        known_hit[e["id"]] = (e, case, res)
                        continue
                    ctx.violation(f"{kind}: the export did not return an error / changed the directory / broke a later export (fresh process)", case,
                                  {"result": res, "changed": before != after, "later": r["steps"][4],
                                   "new_paths": sorted(set(json.dumps(x) for x in after) - set(json.dumps(x) for x in before))[:6]})
                continue
            if kind in ("non_exportable", "climbs_above_root"):
                res = r["steps"][2]
                before, after = r["snaps"][0], r["snaps"][1]
                if not (isinstance(res, dict) and "err" in res) or before != after or r["steps"][4] != "ok":
                    e = next((e for e in ctx.known if e.get("match", {}).get("kind") == kind and e["match"].get("type") == types[victim]["name"]), None)
                    if e:
                        known_hit[e["id"]] = (e, case, res)
                        continue
                    ctx.violation(f"{kind}: the export did not return an error / changed the directory / broke a later export", case,
                                  {"result": res, "changed": before != after, "later": r["steps"][4]})
                continue
            # removable obstacle: failing step must be Err; other files untouched; retry == fault-free
            i_fail = pos + 2
            if r["steps"][pos + 1] != "ok":
                nontriv -= 1       # the obstacle could not be placed (the location is already occupied): not a fault injection
                continue
            res = r["steps"][i_fail]
            before, after = r["snaps"][0], r["snaps"][1]
            bfiles = {p[:-4] if p.endswith(".bak") else p: n for p, n in before if "file" in n}
            afiles = {p[:-4] if p.endswith(".bak") else p: n for p, n in after if "file" in n}
            step = h["steps"][i_fail]
            allowed = {loc_of(types, x, base) for x in ([step["t"]] if step["k"] == "export" else uni.reach(types, step["t"]))}
            touched = {p for p in set(bfiles) | set(afiles) if bfiles.get(p) != afiles.get(p)}
            obstacle_path = h["steps"][pos + 1]["p"].replace("$ROOT/", "")
            touched.discard(obstacle_path)
            final = uni.tree_of(r)
            ref = ref_tree[json.dumps(seq)]
            problems = []
            failed = isinstance(res, dict) and "err" in res
            if not failed:
                nontriv -= 1       # the step had nothing to do at the obstacle (already exported): no failure to recover from
                earlier = set()
                for k0, t0 in seq[:pos]:
                    earlier |= set([t0] if k0 == "export" else uni.reach(types, t0))
                vloc = loc_of(types, victim, base)
                if res == "ok" and victim not in earlier and vloc not in afiles:
                    problems.append(f"the export returned Ok although {vloc} (which it had to write, and this process had not written before) could not be written")
            if failed and step["k"] == "export" and touched:
                problems.append(f"failed export touched {sorted(touched)}")
            if touched - allowed:
                problems.append(f"failed export touched files outside its own targets: {sorted(touched - allowed)}")
            if any(s != "ok" for s in r["steps"][i_fail + 2:]):
                problems.append(f"a step after the obstacle was removed failed: {r['steps'][i_fail + 2:]}")
            if final != ref:
                diff = sorted(k for k in set(final) | set(ref) if final.get(k) != ref.get(k))
                problems.append(f"directory after retry differs from the fault-free run at {diff[:4]}")
            if problems:
                ctx.violation("obstacle/retry: " + "; ".join(problems), case, {"results": r["steps"]})
    for eid, (e, case, res) in known_hit.items():
        ctx.known_finding(e, f"{case['victim']} via {case['steps'][2]['k']} (env {case['env']}): returned {json.dumps(res)}")
    ctx.stream("obstacle histories (entry points on the compiled universe)", total, nontriv,
               "for %d base histories x 3 TS_RS_EXPORT_DIR settings: every step x up to 3 of its target files x {target is a directory, a parent component is a regular file}, "
               "obstacle injected before the step and removed before a retry; plus non-exportable roots and paths climbing above `/` through all three entry points; "
               "model vs implementation on every history; oracle: Err (never panic), other files untouched, tree after retry == fault-free tree" % len(seqs),
               [{"steps": hists[1]["steps"]}], {})
    ctx.assumptions += ["obstacle classes as listed in the property; I/O errors after a successful File::create (disk full, external modification) are out of scope",
                        "types summarised by (ident, output_path, text, deps) read from the compiled universe"]
    vlib.settle(ctx)
    return ctx.finish(proof=proof)


def replay(ctx, obj):
    binary = uni.build(ctx)
    c = obj["case"]
    h = {"op": "uhist", "root": os.path.join(vlib.SCRATCH, "u17r"), "steps": c["steps"]}
    if c.get("env") is not None:
        h["env"] = c["env"]
    r = vlib.run_real(binary, [h])[0]
    print(json.dumps({"steps": r["steps"], "poisoned": r["poisoned"]}, indent=1))
    return 0
