"""C14 — inline, flatten and `as` change presentation, never meaning."""
import copy, json, os, random
import vlib, e2e, gen_corpus
from gen_corpus import P, N, OPT, VEC, PARAM
from props import corpus


def bases(i):
    """a pool of base types F (with the items they need); object-like ones can be flattened"""
    L = {"kind": "struct", "name": f"B{i}L", "shape": "named", "attrs": {"rename_all": "Camel"}, "generics": [],
         "fields": [{"name": "leaf_x", "ty": P("u8"), "attrs": {}}, {"name": "s", "ty": OPT(P("String")), "attrs": {}}]}
    EI = {"kind": "enum", "name": f"B{i}EI", "attrs": {"tag": "k"}, "generics": [],
          "variants": [{"name": "One", "shape": "named", "fields": [{"name": "a", "ty": P("i32"), "attrs": {}}], "attrs": {}},
                       {"name": "Two", "shape": "named", "fields": [{"name": "b", "ty": N(f"B{i}L"), "attrs": {}}], "attrs": {}}]}
    EX = {"kind": "enum", "name": f"B{i}EX", "attrs": {}, "generics": [],
          "variants": [{"name": "Nt", "shape": "tuple", "fields": [{"name": None, "ty": P("u8"), "attrs": {}}], "attrs": {}},
                       {"name": "St", "shape": "named", "fields": [{"name": "q", "ty": P("bool"), "attrs": {}}], "attrs": {}}]}
    G = {"kind": "struct", "name": f"B{i}G", "shape": "named", "attrs": {}, "generics": [{"name": "T"}],
         "fields": [{"name": "t", "ty": PARAM("T"), "attrs": {}}, {"name": "n", "ty": VEC(PARAM("T")), "attrs": {}}]}
    FL = {"kind": "struct", "name": f"B{i}FL", "shape": "named", "attrs": {}, "generics": [],
          "fields": [{"name": "own", "ty": P("u16"), "attrs": {}}, {"name": "l", "ty": N(f"B{i}L"), "attrs": {"flatten": True}},
                     {"name": "il", "ty": N(f"B{i}EX"), "attrs": {"inline": True}}]}
    NT = {"kind": "struct", "name": f"B{i}NT", "shape": "tuple", "attrs": {}, "generics": [], "fields": [{"name": None, "ty": VEC(P("u64")), "attrs": {}}]}
    UE = {"kind": "enum", "name": f"B{i}UE", "attrs": {"rename_all": "Snake"}, "generics": [],
          "variants": [{"name": "AlphaBeta", "shape": "unit", "fields": [], "attrs": {}}, {"name": "Gamma", "shape": "unit", "fields": [], "attrs": {}}]}
    # one-variant enums printed bare whose only payload is itself a union (flattened, the union still has to be parenthesised)
    ON = {"kind": "enum", "name": f"B{i}ON", "attrs": {"untagged": True}, "generics": [],
          "variants": [{"name": "V", "shape": "tuple", "fields": [{"name": None, "ty": N(f"B{i}EI"), "attrs": {"inline": True}}], "attrs": {}}]}
    OS = {"kind": "enum", "name": f"B{i}OS", "attrs": {}, "generics": [],
          "variants": [{"name": "Gone", "shape": "tuple", "fields": [{"name": None, "ty": P("u8"), "attrs": {}}], "attrs": {"skip": True}},
                       {"name": "V", "shape": "tuple", "fields": [{"name": None, "ty": N(f"B{i}EI"), "attrs": {"inline": True}}], "attrs": {"untagged": True}}]}
    items = [L, EI, EX, G, FL, NT, UE, ON, OS]
    pool = [(N(ON["name"]), True), (N(OS["name"]), True), (N(L["name"]), True), (N(EI["name"]), True), (N(EX["name"]), False), (N(G["name"], P("bool")), True), (N(G["name"], N(L["name"])), True),
            (N(FL["name"]), True), (N(NT["name"]), False), (N(UE["name"]), False)]
    return items, pool


def siblings(i, j, F, objlike, rng):
    """items presenting the same field type F in different ways, at different positions"""
    out = []
    pre = {"name": "pre", "ty": P("u8"), "attrs": {}}
    wrap = rng.choice([None, "box", "arc"])
    FT = F if wrap is None else {"k": "wrap", "w": wrap, "t": F}
    def S(tag, attrs, ty=None, shape="named"):
        ty = ty or FT
        name = f"S{i}_{j}_{tag}"
        if shape == "named":
            fields = [copy.deepcopy(pre), {"name": "f", "ty": ty, "attrs": attrs}]
        elif shape == "tuple":
            fields = [{"name": None, "ty": P("u8"), "attrs": {}}, {"name": None, "ty": ty, "attrs": attrs}]
        else:
            fields = [{"name": None, "ty": ty, "attrs": attrs}]
            shape = "tuple"
        return {"kind": "struct", "name": name, "shape": shape, "attrs": {}, "generics": [], "fields": fields, "_tag": tag}
    out += [S("name", {}), S("inl", {"inline": True}), S("as", {"as": copy.deepcopy(FT)})]
    out += [S("tname", {}, shape="tuple"), S("tinl", {"inline": True}, shape="tuple"), S("nname", {}, shape="newtype"), S("ninl", {"inline": True}, shape="newtype")]
    if objlike:
        out.append(S("flat", {"flatten": True}))
    if objlike:
        # a parent whose ONLY own property is its tag: flattening F must keep the tag (`{ kind: "..." } & F`), in a struct and in a struct
        # variant of an internally tagged enum
        tf = S("tagflat", {"flatten": True})
        tf["fields"] = [f for f in tf["fields"] if f["name"] != "pre"]
        tf["attrs"] = {"tag": "kind"}
        out.append(tf)
        out.append({"kind": "enum", "name": f"S{i}_{j}_vtagflat", "attrs": {"tag": "t"}, "generics": [], "_tag": "vtagflat",
                    "variants": [{"name": "V", "shape": "named", "fields": [{"name": "f", "ty": FT, "attrs": {"flatten": True}}], "attrs": {}},
                                 {"name": "U", "shape": "unit", "fields": [], "attrs": {}}]})
    # containers of F, by name / inlined
    for ctag, cty in (("cvec", VEC(FT)), ("copt", OPT(FT))):
        out += [S(ctag + "name", {}, cty), S(ctag + "inl", {"inline": True}, cty)]
    # optional (non-nullable) x inline
    oa = {"optional": "optional", "skip_ser_if_none": True, "default": True}
    out += [S("optname", dict(oa), OPT(FT)), S("optinl", dict(oa, inline=True), OPT(FT))]
    # inside a struct variant of an enum
    for tag, attrs in (("vname", {}), ("vinl", {"inline": True})):
        out.append({"kind": "enum", "name": f"S{i}_{j}_{tag}", "attrs": {"tag": "t", "content": "c"} if j % 2 else {}, "generics": [], "_tag": tag,
                    "variants": [{"name": "V", "shape": "named", "fields": [copy.deepcopy(pre), {"name": "f", "ty": FT, "attrs": attrs}], "attrs": {}},
                                 {"name": "U", "shape": "unit", "fields": [], "attrs": {}}]})
    # the same type twice in one item: by name first, then inlined / flattened (its own dependencies must still be recorded)
    out.append({"kind": "struct", "name": f"S{i}_{j}_twiceinl", "shape": "named", "attrs": {}, "generics": [], "_tag": "twiceinl",
                "fields": [{"name": "byname", "ty": FT, "attrs": {}}, {"name": "inl", "ty": FT, "attrs": {"inline": True}}]})
    if objlike:
        out.append({"kind": "struct", "name": f"S{i}_{j}_twiceflat", "shape": "named", "attrs": {}, "generics": [], "_tag": "twiceflat",
                    "fields": [{"name": "byname", "ty": FT, "attrs": {}}, {"name": "fl", "ty": FT, "attrs": {"flatten": True}}]})
    # ... and in the other order: inlined / flattened first, by name afterwards (the by-name use still needs its import)
    out.append({"kind": "struct", "name": f"S{i}_{j}_inlthen", "shape": "named", "attrs": {}, "generics": [], "_tag": "inlthen",
                "fields": [{"name": "inl", "ty": FT, "attrs": {"inline": True}}, {"name": "byname", "ty": FT, "attrs": {}}]})
    if objlike:
        out.append({"kind": "struct", "name": f"S{i}_{j}_flatthen", "shape": "named", "attrs": {}, "generics": [], "_tag": "flatthen",
                    "fields": [{"name": "fl", "ty": FT, "attrs": {"flatten": True}}, {"name": "byname", "ty": FT, "attrs": {}}]})
    # `as = "U"` with U DIFFERENT from the field's type, against the item whose field simply has type U, at every position
    U = N(f"B{i}L") if not (F["k"] == "named" and F["id"] == f"B{i}L") else N(f"B{i}FL")
    for pos in ("named", "tuple", "newtype"):
        out += [S("asU" + pos, {"as": copy.deepcopy(U)}, shape=pos), S("isU" + pos, {}, ty=U, shape=pos)]
    out += [S("asUvec", {"as": VEC(copy.deepcopy(U))}, VEC(FT)), S("isUvec", {}, VEC(U))]
    for rname, eattrs in (("ext", {}), ("int", {"tag": "t"}), ("adj", {"tag": "t", "content": "c"})):
        for tag, attrs, ty in (("asUv" + rname, {"as": copy.deepcopy(U)}, FT), ("isUv" + rname, {}, U)):
            out.append({"kind": "enum", "name": f"S{i}_{j}_{tag}", "attrs": dict(eattrs), "generics": [], "_tag": tag,
                        "variants": [{"name": "N", "shape": "tuple", "fields": [{"name": None, "ty": ty, "attrs": attrs}], "attrs": {}},
                                     {"name": "M", "shape": "named", "fields": [copy.deepcopy(pre), {"name": "f", "ty": ty, "attrs": attrs}], "attrs": {}}]})
    return out, FT


PAIRS = [("name", "inl"), ("tname", "tinl"), ("nname", "ninl"), ("vecname", "vecinl"), ("optname2", "optinl2"), ("optname", "optinl"), ("vname", "vinl")]


def run(ctx):
    proof = vlib.lean_check(ctx)
    rng = random.Random(ctx.seed * 101 + 7)
    progs = []
    for i in range(3 if ctx.quick else 20):
        items, pool = bases(i)
        # arrays around the tuple limit (64): by name a tuple up to the limit and `Array<T>` beyond it — inlined, `as`-typed and inside
        # containers exactly the same (serde has no impls beyond 32 elements: these siblings only derive TS)
        pool = pool + [({"k": "arr", "t": P("u8"), "n": 64}, False), ({"k": "arr", "t": OPT(P("bool")), "n": [63, 65, 64][i % 3]}, False),
                       ({"k": "arr", "t": N(items[0]["name"]), "n": [2, 1, 3][i % 3]}, False)]
        big = lambda F: F.get("k") == "arr" and F["n"] > 32
        sibs, meta = [], []
        for j, (F, objlike) in enumerate(pool):
            ss, FT = siblings(i, j, F, objlike, rng if not big(F) else random.Random(0))    # (no pointer wrapper around the big arrays)
            if big(F):
                for s_ in ss:
                    s_["serde"] = False
            sibs += ss
        allitems = items + [{k: v for k, v in s.items() if not k.startswith("_")} for s in sibs]
        imap = {x["name"]: x for x in allitems}
        g = gen_corpus.Gen(rng)
        probes = [{"ty": t, "values": [g.val(t, imap) for _ in range(2)] if not big(t) else []} for t, _ in pool]
        for s in sibs:
            t = N(s["name"])
            probes.append({"ty": t, "values": g.all_variant_values(t, imap)[:3] if s.get("serde", True) else [], "_tag": s["_tag"], "_group": s["name"].rsplit("_", 1)[0]})
        progs.append({"items": allitems, "probes": probes})
    c = corpus.get(ctx)     # shared char table etc.
    clean = [{"items": p["items"], "probes": [{k: v for k, v in pr.items() if not k.startswith("_")} for pr in p["probes"]]} for p in progs]
    real, _ = e2e.build_and_run(ctx, "c14", clean)
    if real is None:
        vlib.settle(ctx)
        return ctx.finish(proof=proof)
    model = e2e.run_model_programs(clean, c.chars, os.path.join(vlib.SCRATCH, "e2e-c14"))
    nd = 0
    for prog, R, M in zip(progs, real, model or []):
        for pr, r, m in zip(prog["probes"], R, M):
            for k in ("name", "decl", "inline", "inline_flattened"):
                if r.get(k) != m.get(k):
                    nd += 1
                    if nd == 1:
                        ctx.broken.append(f"compiled correspondence (presentation siblings): {json.dumps(pr['ty'])[:120]} {k}: impl={json.dumps(r.get(k))[:300]} model={json.dumps(m.get(k))[:300]}")
    # C14_checked_unfolding: the REAL declarations (with their `inline` marks) are unfoldings of the tree-level declarations of the
    # program without the marks, as judged by the proven-sound executable test
    ilines = []
    for prog, R in zip(clean, real):
        byname = {}
        for pr, r in zip(prog["probes"], R):
            if pr["ty"]["k"] == "named" and "ok" in r.get("decl", {}):
                byname.setdefault(pr["ty"]["id"], r["decl"]["ok"])
        ilines.append({"op": "inline_check", "items": prog["items"], "decls": [byname.get(it["name"], "") for it in prog["items"]]})
    ires = vlib.run_model([c.chars] + ilines)
    n_marked = n_sub = 0
    for pi, r in enumerate((ires or [None])[1:]):
        if not r.get("frag") or not r.get("sub"):
            continue
        n_sub += r["sub"]
        n_marked += r.get("marked", 0)
        if not r.get("wsd") or not r.get("unf"):
            ctx.broken.append(f"a real declaration is not an unfolding of the tree-level declaration without inline marks (tie of C14_checked_unfolding): program {pi} items {r.get('bad')} wsd={r.get('wsd')}")
    if ires is None:
        ctx.broken.append("inline_check: model driver unavailable")
    ctx.stream("real declarations as unfoldings (inline)", n_sub, n_marked,
               "every sibling program: marks removed, largest closed sub-program inside the fragment of C01_items_sound, its tree-level declarations D against the parsed REAL "
               "declarations D' through `declsUnfB` (sound for `DeclsUnf`), `wsdB D`; non-trivial = items carrying an inline mark inside the sub-program", [], {"items": n_sub, "marked": n_marked})
    qs, meta = [], []
    for prog, R in zip(progs, real):
        base_decls = [r["decl"]["ok"] for pr, r in zip(prog["probes"], R) if "_tag" not in pr and "ok" in r.get("decl", {})]
        base_decls = list(dict.fromkeys(base_decls))
        base_names = [d.split("=")[0].replace("type ", "").split("<")[0].strip() for d in base_decls]
        groups = {}
        for pr, r in zip(prog["probes"], R):
            if "_tag" in pr:
                groups.setdefault(pr["_group"], {})[pr["_tag"]] = (pr, r)
        for gname, g in groups.items():
            def body(tag):
                r = g[tag][1]
                return r["decl"]["ok"].split("=", 1)[1] if "ok" in r.get("decl", {}) else None
            def same_name(tag, ref):
                return "type X =" + body(tag)
            case_items = [it for it in prog["items"] if it["name"].startswith(gname + "_") or not it["name"].startswith("S")]
            # (i) `as = same type` is textually the by-name binding
            if body("as") is not None and body("as") != body("name"):
                ctx.violation("`as = \"U\"` does not yield the binding the item would have if its field's type were U",
                              {"items": case_items, "group": gname}, {"as": g["as"][1]["decl"], "by_name": g["name"][1]["decl"]})
            # (i') `as = "U"` (U another type) is textually the binding of the item whose field has type U, at every position
            for tag in list(g):
                if tag.startswith("asU"):
                    other = "isU" + tag[3:]
                    if other in g and body(tag) is not None and body(other) is not None and body(tag) != body(other):
                        ctx.violation("`as = \"U\"` does not yield the binding the item would have if its field's type were U",
                                      {"items": case_items, "group": gname, "position": tag[3:]}, {"as": g[tag][1]["decl"], "field_of_type_U": g[other][1]["decl"]})
                    if other in g and sorted(set(map(tuple, g[tag][1].get("deps", [])))) != sorted(set(map(tuple, g[other][1].get("deps", [])))):
                        ctx.violation("`as = \"U\"` does not record the dependencies the item would have if its field's type were U",
                                      {"items": case_items, "group": gname, "position": tag[3:]}, {"as": g[tag][1].get("deps"), "field_of_type_U": g[other][1].get("deps")})
            # (i'') every name a presentation mentions is among its recorded dependencies (inline / flatten keep the inner type's dependencies)
            from props import tsparse
            for tag, (pr_, r_) in g.items():
                if "ok" in r_.get("decl", {}):
                    d = r_["decl"]["ok"]
                    own = d.split("=")[0].replace("type ", "").split("<")[0].strip()
                    used = tsparse.free_names(d.split("=", 1)[1]) - {own}
                    have = {x[0] for x in r_.get("deps", [])}
                    if not used <= have:
                        ctx.violation("a presentation mentions a type that is not among the item's recorded dependencies",
                                      {"items": case_items, "group": gname, "presentation": tag}, {"decl": d, "dependencies": sorted(have), "missing": sorted(used - have)})
            # (ii) inline == by name with the reference unfolded
            for a, b in [("name", "inl"), ("tname", "tinl"), ("nname", "ninl"), ("cvecname", "cvecinl"), ("coptname", "coptinl"), ("optname", "optinl"), ("vname", "vinl")]:
                if a in g and b in g and body(a) is not None and body(b) is not None:
                    qs.append({"op": "oracle_c14", "decls": base_decls, "unfold": base_names, "a": "type X =" + body(a), "b": "type X =" + body(b)})
                    meta.append(("inline", gname, a, b, case_items, g[a][1]["decl"]["ok"], g[b][1]["decl"]["ok"]))
                    # semantic cross-check on the real JSON: the by-name values must inhabit the inlined type
                    for jt in g[a][1].get("values", []):
                        if jt is not None:
                            qs.append({"op": "oracle_member", "decls": base_decls + [g[b][1]["decl"]["ok"]], "ty": g[b][1]["name"]["ok"], "json": jt})
                            meta.append(("member", gname, a, b, case_items, jt, g[b][1]["decl"]["ok"]))
            # (iii) flatten == merge of the parent's own properties with the flattened type
            if "flat" in g and body("flat") is not None:
                fpr = g["name"][0]
                # the by-name sibling is `{ pre: number, f: F, }`: replace `f: F,` by an intersection with F
                fref = g["name"][1]["decl"]["ok"].split("f: ", 1)[1].rsplit(", }", 1)[0]
                qs.append({"op": "oracle_c14", "decls": base_decls, "unfold": base_names, "a": "type X =" + body("flat"),
                           "b": "type X = { pre: number, } & (" + fref + ");"})
                meta.append(("flatten", gname, "flat", "name", case_items, g["flat"][1]["decl"]["ok"], g["name"][1]["decl"]["ok"]))
                # ... and when the parent's only own property is its tag
                if "tagflat" in g and body("tagflat") is not None:
                    qs.append({"op": "oracle_c14", "decls": base_decls, "unfold": base_names, "a": "type X =" + body("tagflat"),
                               "b": 'type X = { "kind": "' + gname + '_tagflat", } & (' + fref + ");"})
                    meta.append(("flatten", gname, "tagflat", "name", case_items, g["tagflat"][1]["decl"]["ok"], g["name"][1]["decl"]["ok"]))
                if "vtagflat" in g and body("vtagflat") is not None:
                    qs.append({"op": "oracle_c14", "decls": base_decls, "unfold": base_names, "a": "type X =" + body("vtagflat"),
                               "b": 'type X = { "t": "V", } & (' + fref + ') | { "t": "U", };'})
                    meta.append(("flatten", gname, "vtagflat", "name", case_items, g["vtagflat"][1]["decl"]["ok"], g["name"][1]["decl"]["ok"]))
    res = vlib.run_model(qs) if qs else []
    fails = 0
    for q, m, o in zip(qs, meta, res or []):
        if o.get("ok") is True:
            continue
        if "ok" not in o:
            ctx.broken.append(f"oracle cannot read a declaration: {json.dumps(q)[:300]}")
            continue
        fails += 1
        if fails <= 6:
            kind = m[0]
            what = {"inline": "an inlined field does not denote the same type as the field referred to by name",
                    "member": "a JSON value of the by-name presentation does not inhabit the inlined presentation",
                    "flatten": "a flattened field does not denote the merge of the flattened type's properties into the parent"}[kind]
            ctx.violation(what, {"items": m[4], "group": m[1], "presentations": [m[2], m[3]]}, {"a": m[5], "b": m[6]})
    n = sum(len(p["probes"]) for p in progs)
    ctx.stream("presentation siblings (compiled)", len(qs), n,
               "8 base types (structs, internally/externally tagged enums, generic instantiations, a struct that itself flattens and inlines, newtype, unit enum), optionally behind Box/Arc, "
               "each presented by name / inline / as = same type / flatten (object-like) in named, tuple, newtype and variant-field position, below Vec and Option, and with #[ts(optional)]; "
               "oracle: `as` textually equal; inline normal-form-equal to by-name with the reference unfolded; flatten normal-form-equal to `{own} & F`; real JSON of one presentation inhabits the other",
               [{"a": qs[0].get("a"), "b": qs[0].get("b")}] if qs else [], {"oracle_failures": fails, "model_disagreements": nd})
    ctx.assumptions += ["normal form: parentheses dropped, unions/intersections flattened, adjacent object literals of an intersection merged (Model/TsNorm.lean)"]
    vlib.settle(ctx)
    return ctx.finish(proof=proof)


def replay(ctx, obj):
    print(json.dumps(obj, indent=1)[:3000])
    return 0
