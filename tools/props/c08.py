"""C08 — import specifiers resolve to the dependency's file for every path pair."""
import itertools, json, os, posixpath
import vlib

DIRS = [".", "..", "a", "b.ts", "c.d", ".h"]
FILES = ["A.ts", "b.ts", "c.d.ts", "ts.ts", "posts.ts", ".s.ts", "a", "x.tsx"]
ODD_FILES = ["a.ts.ts", "x.js.ts", "y.ts.js.ts", "chart.js.ts", "x.ts", "chart.ts"]        # stems ending in .ts/.js: outside the proven domain (see DESIGN C08)


def rel_paths(max_depth, files):
    out = []
    for d in range(max_depth + 1):
        for dirs in itertools.product(DIRS, repeat=d):
            for f in files:
                out.append("/".join(dirs + (f,)))
    return out


def norm_names(cwd, p):
    """independent reference: POSIX lexical normalisation -> list of names below '/', or None if it climbs above '/'"""
    full = posixpath.join(cwd, p)
    out = []
    for piece in full.split("/"):
        if piece in ("", "."):
            continue
        if piece == "..":
            if not out:
                return None
            out.pop()
        else:
            out.append(piece)
    return out


def in_domain(to_names, esm=False):
    f = to_names[-1]
    if not f.endswith(".ts"):
        return False
    stem = f[:-3]
    # a stem ending in `.js` is only contradictory when ES-module imports are off (`.js` iff esm); with esm `chart.js.ts` is imported as `chart.js.js`
    return stem != "" and not stem.endswith(".ts") and (esm or not stem.endswith(".js"))


def make_cases(ctx, esm):
    cwd = os.path.join(vlib.SCRATCH, "c08", "w")
    bases = ["./bindings", "bindings", os.path.join(vlib.SCRATCH, "c08", "abs", "out"), "./x/../bindings/.", "bindings/"]
    depth = 1 if ctx.quick else 2
    rels = rel_paths(depth, FILES) + rel_paths(1, ODD_FILES)
    cases = []
    # exhaustive over (from, to) for the first base; other bases with a sample
    pairs = list(itertools.product(rels, rels))
    ctx.rng.shuffle(pairs)
    limit = 12000 if ctx.quick else 150000
    for i, (f, t) in enumerate(pairs[:limit]):
        base = bases[i % len(bases)]
        cases.append({"op": "import_path", "cwd": cwd, "esm": esm,
                      "from": posixpath.join(base, f) if not base.endswith("/") else base + f,
                      "to": posixpath.join(base, t) if not base.endswith("/") else base + t})
    # deeper random pairs
    for _ in range(2000 if ctx.quick else 20000):
        base = ctx.rng.choice(bases)
        def rp():
            d = ctx.rng.randint(0, 4)
            return "/".join([ctx.rng.choice(DIRS) for _ in range(d)] + [ctx.rng.choice(FILES + ODD_FILES)])
        cases.append({"op": "import_path", "cwd": cwd, "esm": esm, "from": base.rstrip("/") + "/" + rp(),
                      "to": base.rstrip("/") + "/" + rp()})
    return cases


def oracle_cases(cases, real):
    """Build oracle queries (evaluated by the Lean driver with the very `resolve` the theorem uses)."""
    qs, idx = [], []
    for i, (c, r) in enumerate(zip(cases, real)):
        if "ok" not in r:
            continue
        fn, tn = norm_names(c["cwd"], c["from"]), norm_names(c["cwd"], c["to"])
        if fn is None or tn is None or not fn or not tn:
            continue
        if fn == tn or tn == fn[:-1][:len(tn)] and len(tn) <= len(fn) - 1:
            continue  # imported path is the importing file itself / an ancestor directory of it: not a file pair
        if not in_domain(tn, c["esm"]) or not fn[-1]:
            continue
        qs.append({"op": "oracle_c08", "esm": c["esm"], "dir": fn[:-1], "to": tn, "spec": r["ok"]})
        idx.append(i)
    return qs, idx


def written_files(ctx):
    """the specifiers in files that were really written: output paths that leave the export directory through `..` by different
    numbers of levels, importing each other and files inside it (the specifier has to walk back down THROUGH the export directory)"""
    import posixpath
    import e2e
    from gen_corpus import P, N
    from props import tsparse
    def st(name, to, deps):
        return {"kind": "struct", "name": name, "shape": "named", "attrs": ({"export_to": to} if to else {}), "generics": [],
                "fields": [{"name": f"f{k}", "ty": N(d), "attrs": {}} for k, d in enumerate(deps)] or [{"name": "x", "ty": P("u8"), "attrs": {}}]}
    items = [st("WInner", "models/WInner.ts", []), st("WPlain", None, []), st("WDeep", "a/b/c/WDeep.ts", ["WInner"]),
             st("WOuter", "../wshared/WOuter.ts", ["WInner", "WPlain", "WDeep"]), st("WOuter2", "../../wfar/x/WOuter2.ts", ["WOuter", "WInner"]),
             st("WSide", "../wshared/WSide.ts", ["WOuter", "WOuter2"]), st("WIn", "sub/WIn.ts", ["WOuter", "WOuter2", "WDeep"])]
    progs = [{"items": items, "probes": [{"ty": N(it["name"]), "values": []} for it in items]}]
    real, _ = e2e.build_and_run(ctx, "c08w", progs)
    if real is None:
        return
    base = os.path.join(vlib.SCRATCH, "c08w", "lvl1", "lvl2", "exportdir")      # two levels of room above the export directory
    steps, _ = e2e.run_export(ctx, "c08w", "env", base)
    top = os.path.join(vlib.SCRATCH, "c08w")
    tree = {}
    for root, _, files in os.walk(top):
        for fn in files:
            if fn.endswith(".ts"):
                tree[os.path.relpath(os.path.join(root, fn), top)] = open(os.path.join(root, fn), encoding="utf-8").read()
    probs = tsparse.closure_problems(tree)
    n = sum(len(tsparse.parse_file(t)["imports"]) for t in tree.values())
    if any(x != "ok" for st_ in steps for x in st_):
        probs.append(f"export returned {steps}")
    if len(tree) != len(items):
        probs.append(f"{len(tree)} files written for {len(items)} types: {sorted(tree)}")
    if probs:
        ctx.violation("an import specifier in a written file does not resolve to the file the dependency was written to: " + "; ".join(probs[:3]),
                      {"items": [e2e.item_rs(it) for it in items], "entry": "export_all() with TS_RS_EXPORT_DIR"}, {"files": {k: v[:400] for k, v in tree.items()}})
    ctx.stream("specifiers in written files (output paths leaving the export directory)", n, len(tree),
               "7 types whose export_to stays inside / leaves the export directory by one / two levels, importing each other; exported through export_all() with "
               "TS_RS_EXPORT_DIR; every import statement of every written file resolved against the files really written (tools/props/tsparse.py)", [], {"problems": len(probs)})


def run(ctx):
    proof = vlib.lean_check(ctx)
    total, nontriv, samples = 0, 0, []
    for esm in (False, True):
        binary = vlib.build_hookbin(ctx, esm=esm)
        if binary is None:
            continue
        cases = make_cases(ctx, esm)
        real = vlib.run_real(binary, cases)
        model = vlib.run_model(cases)
        dis = vlib.compare(ctx, f"import_path(esm={esm})", cases, real, model)
        # oracle on the implementation's outputs
        qs, idx = oracle_cases(cases, real)
        verdicts = vlib.run_model(qs) if qs else []
        if verdicts is None:
            verdicts = []
            ctx.broken.append("oracle_c08 unavailable (driver did not build)")
        bad = [(cases[i], real[i], v) for i, v in zip(idx, verdicts) if v.get("ok") is not True]
        for c, r, v in bad[:5]:
            ctx.violation("import specifier violates C08 on the implementation: " + json.dumps(v),
                          c, {"impl": r, "oracle": v})
        total += len(cases)
        distinct = {(c["from"], c["to"]) for c, r in zip(cases, real) if "ok" in r and "/" in r["ok"].strip("./")}
        nontriv += len(distinct)
        samples += [{"case": cases[k], "impl": real[k]} for k in range(0, len(cases), max(1, len(cases) // 2))][:2]
        ctx.stream(f"import_path esm={esm}", len(cases), len(distinct),
                   "all (from,to) pairs of relative output paths over dirs %s x files %s (+ odd stems %s) to depth %d, 5 base spellings, "
                   "plus random deeper pairs; non-trivial = distinct pairs whose real specifier crosses a directory" % (DIRS, FILES, ODD_FILES, 1 if ctx.quick else 2),
                   samples, {"oracle_evaluated": len(qs), "oracle_failed": len(bad), "model_disagreements": len(dis),
                             "errors_or_panics": sum(1 for r in real if "ok" not in r)})
    written_files(ctx)
    ctx.assumptions += [
        "C08 domain: the imported file's name ends in `.ts` and its stem is non-empty and does not itself end in `.ts`/`.js` "
        "(for such names 'no .ts extension'/'.js iff esm' and 'resolves' contradict each other); no path climbs above `/`; Unix paths only",
    ]
    vlib.settle(ctx)
    return ctx.finish(proof=proof)


def replay(ctx, obj):
    case = obj["case"]
    esm = case.get("esm", False)
    binary = vlib.build_hookbin(ctx, esm=esm)
    real = vlib.run_real(binary, [case])
    qs, idx = oracle_cases([case], real)
    v = vlib.run_model(qs) if qs else []
    print(json.dumps({"case": case, "impl": real[0], "oracle": v}, indent=1))
    return 1 if any(x.get("ok") is not True for x in v) else 0
