"""C15 — doc comments are carried over, contained, and never alter the type."""
import copy, json, os, random, re
import vlib, e2e
from gen_corpus import P, N, OPT, VEC, PARAM
from props import corpus

SENT = "export type Sentinel = 1;"
FRAGS = [" plain text", "", " ", " see **/*.rs", "*/", "/", "/ leading slash", "*", "**", " /* nested */ ", " export type Zzz = 1;", " \"quoted\" and 'single'",
         " back\\slash \\", " ünï çödé ✓", " `code` <T> {x}", " // line comment", " trailing *", "/*", " a */ b */ c", " */ export type Evil = 0; /*", " tab\there",
         " @param x - y", " " + "寸法の単位はマイクロメートルです。" * 8, " {@link Foo}", " \\/ already escaped *\\/", " " + "long " * 60]
MULTI = ["\n first\n second\n ", "\n * starred\n * lines\n ", "/\nslash first", "\n a */ b\n", "\n para one\n\n para two\n ", "*\n/", "\n"]


# ---- an independent reader of TypeScript's comment / string lexical structure ---------------------
def lex(text):
    """returns (significant characters, [(start, end, body)] of block comments, end state)"""
    out, comments = [], []
    i, n = 0, len(text)
    state = "code"
    while i < n:
        c = text[i]
        if c in "\"'":
            q = c
            out.append(c)
            i += 1
            while i < n:
                out.append(text[i])
                if text[i] == "\\" and i + 1 < n:
                    out.append(text[i + 1])
                    i += 2
                    continue
                if text[i] == q:
                    break
                i += 1
            else:
                state = "str"
            i += 1
        elif text.startswith("/*", i):
            j = text.find("*/", i + 2)
            if j < 0:
                comments.append((i, n, text[i + 2:]))
                state = "block"
                i = n
            else:
                comments.append((i, j + 2, text[i + 2:j]))
                i = j + 2
        elif text.startswith("//", i):
            j = text.find("\n", i)
            i = n if j < 0 else j + 1
        elif c in " \n\t\r":
            i += 1
        else:
            out.append(c)
            i += 1
    return "".join(out), comments, state


def pysig(text):
    return lex(text)[0]


def written(d):
    """how a doc text is spelled inside the block: it always follows a `*`, and every `*/` it forms is defused"""
    return ("*" + d).replace("*/", "*\\/")[1:]


def has_text(body, docs):
    return all(written(d) in body for d in docs)


def check_block(ctx, out, docs, case):
    """oracle on one implementation-produced block"""
    ok = True
    if not docs:
        if out != "":
            ctx.violation("no doc attributes but a block is produced", case, {"out": out})
            ok = False
        return ok
    sig, comments, state = lex(out + SENT)
    if sig != pysig(SENT) or state != "code" or len(comments) != 1 or comments[0][0] != 0 or (out + SENT)[comments[0][1]:].lstrip("\n") != SENT:
        ctx.violation("documentation text ends its comment early or is read as code", case, {"block": out, "read_as_code": sig})
        return False
    body = comments[0][2]
    for d in docs:
        if written(d) not in body:
            ctx.violation("documentation text is missing from the comment block", case, {"block": out, "missing": d})
            ok = False
    return ok


def gen_docs(rng, k):
    docs = []
    for _ in range(k):
        n = rng.choice([1, 1, 2, 3, 4])
        if rng.random() < 0.3:
            d = [rng.choice(FRAGS) for _ in range(rng.choice([0, 0, 1, 2]))]
            d.insert(rng.randrange(len(d) + 1), rng.choice(MULTI))        # a multi-line attribute at any index, alone or among others
        else:
            d = [rng.choice(FRAGS) if rng.random() < 0.7 else rng.choice(FRAGS) + rng.choice(FRAGS) for _ in range(n)]
        docs.append(d)
    return docs


def doc_item_src(docs, form):
    """a unit struct carrying the docs, in attribute form or in comment form"""
    if form == "attr":
        return "".join(f"#[doc = {e2e.rs_str(d)}] " for d in docs) + "struct S;"
    if form == "line":
        return "".join(f"///{d}\n" for d in docs) + "struct S;"
    return f"/**{docs[0]}*/\nstruct S;"


def comment_form_ok(docs, form):
    if form == "line":
        # `////` is not a doc comment; a `\r` is rejected by the Rust lexer
        return all("\n" not in d and "\r" not in d and not d.startswith("/") for d in docs)
    if form == "block":
        d = docs[0]
        # Rust block comments nest: only balanced `/*`..`*/` can be written; `/**/` and `/***` are not doc comments
        return len(docs) == 1 and "\r" not in d and "/*" not in d and "*/" not in d and not d.startswith("*") and not d.startswith("/") and not d.endswith("/") and d != ""
    return True


def stream_blocks(ctx, proof):
    rng = random.Random(ctx.seed * 31 + 5)
    docsets = [[f] for f in FRAGS] + [[m] for m in MULTI] + [[m, f] for m in MULTI for f in FRAGS[:6]] + [[f, m] for m in MULTI for f in FRAGS[:3]] + [[a, b] for a in FRAGS[:12] for b in FRAGS[:12]] + gen_docs(rng, 300 if ctx.quick else 6000)
    cases, meta = [], []
    for docs in docsets:
        for form in ("attr", "line", "block"):
            if comment_form_ok(docs, form):
                cases.append(["parse_docs", doc_item_src(docs, form)])
                meta.append((docs, form))
    real = vlib.run_macro(ctx, cases, tag="c15")
    if real is None:
        return
    model = vlib.run_model([{"op": "parse_docs", "docs": docs, "sentinel": SENT} for docs, _ in meta])
    fails = 0
    forms = {}
    cm, cr = [], []
    for (docs, form), r, m in zip(meta, real, model or [None] * len(meta)):
        forms[form] = forms.get(form, 0) + 1
        case = {"docs": docs, "form": form, "item": doc_item_src(docs, form)}
        if "ok" not in r:
            if form == "attr" or "panic" in r:
                ctx.violation("parse_docs fails on doc attributes", case, r)
                fails += 1
            cr.append({"out": None}); cm.append({"out": None})
            continue
        # the comment forms go through syn's lexer: what it hands over is the ground truth for the attribute values
        cr.append({"out": r["ok"]})
        cm.append({"out": m["out"] if m else None})
        if not check_block(ctx, r["ok"], docs, case):
            fails += 1
        if m and (not m["inert"] or (docs and m["rest"] != "\n" + SENT)):
            ctx.broken.append(f"model self-check: parseDocs {docs!r} is not inert in the model's own lexer")
    vlib.compare(ctx, "parse_docs (block text)", [{"docs": d, "form": f} for d, f in meta], cr, cm if model else None)
    ctx.stream("parse_docs in-process", len(cases), len(docsets),
               "every fragment of the nasty alphabet alone and pairwise (`*/`, `/`, `/*`, `export type `, quotes, backslashes, non-ASCII, tabs, 300-char lines), multi-line single attributes, random "
               "1-4 attribute lists; as #[doc = ..] attributes and, where Rust's lexer can express it, as /// and /** */ comments; model = implementation byte for byte; independent lexer: "
               "block + sentinel declaration reads as exactly one comment followed by the sentinel; every doc text is inside the comment (modulo the `*\\/` escape)",
               [{"docs": docsets[3]}], {"failures": fails, "forms": forms})


# ---- item level: the same item with and without documentation ------------------------------------------
def base_items(i):
    L = {"kind": "struct", "name": f"D{i}L", "shape": "named", "attrs": {}, "generics": [], "fields": [{"name": "leaf_x", "ty": P("u8"), "attrs": {}}]}
    EX = {"kind": "enum", "name": f"D{i}EX", "attrs": {}, "generics": [],
          "variants": [{"name": "Nt", "shape": "tuple", "fields": [{"name": None, "ty": P("u8"), "attrs": {}}], "attrs": {}},
                       {"name": "St", "shape": "named", "fields": [{"name": "q", "ty": P("bool"), "attrs": {}}, {"name": "r_s", "ty": OPT(P("String")), "attrs": {}}], "attrs": {}},
                       {"name": "U", "shape": "unit", "fields": [], "attrs": {}}]}
    S = {"kind": "struct", "name": f"D{i}S", "shape": "named", "attrs": {"rename_all": "Camel"}, "generics": [],
         "fields": [{"name": "a_b", "ty": P("u8"), "attrs": {}}, {"name": "opt", "ty": OPT(P("i32")), "attrs": {"optional": "optional", "skip_ser_if_none": True, "default": True}},
                    {"name": "l", "ty": N(L["name"]), "attrs": {"flatten": True}}, {"name": "e", "ty": N(EX["name"]), "attrs": {"inline": True}},
                    {"name": "o", "ty": P("u8"), "attrs": {"type": "0 | 1"}}, {"name": "kebab", "ty": VEC(N(L["name"])), "attrs": {"rename": "ke-bab"}}]}
    EI = {"kind": "enum", "name": f"D{i}EI", "attrs": {"tag": "k"}, "generics": [],
          "variants": [{"name": "One", "shape": "named", "fields": [{"name": "a", "ty": P("i32"), "attrs": {}}], "attrs": {}},
                       {"name": "Two", "shape": "named", "fields": [{"name": "b", "ty": N(L["name"]), "attrs": {}}], "attrs": {}}]}
    EA = {"kind": "enum", "name": f"D{i}EA", "attrs": {"tag": "t", "content": "c"}, "generics": [],
          "variants": [{"name": "X", "shape": "tuple", "fields": [{"name": None, "ty": P("u8"), "attrs": {}}, {"name": None, "ty": P("String"), "attrs": {}}], "attrs": {}},
                       {"name": "Y", "shape": "named", "fields": [{"name": "y", "ty": P("bool"), "attrs": {}}], "attrs": {}}]}
    EU = {"kind": "enum", "name": f"D{i}EU", "attrs": {"untagged": True}, "generics": [],
          "variants": [{"name": "P", "shape": "named", "fields": [{"name": "p", "ty": P("u8"), "attrs": {}}], "attrs": {}},
                       {"name": "Q", "shape": "tuple", "fields": [{"name": None, "ty": P("String"), "attrs": {}}], "attrs": {}}]}
    T = {"kind": "struct", "name": f"D{i}T", "shape": "tuple", "attrs": {}, "generics": [], "fields": [{"name": None, "ty": P("u8"), "attrs": {}}, {"name": None, "ty": P("String"), "attrs": {}}]}
    NT = {"kind": "struct", "name": f"D{i}NT", "shape": "tuple", "attrs": {}, "generics": [], "fields": [{"name": None, "ty": VEC(P("u64")), "attrs": {}}]}
    UN = {"kind": "struct", "name": f"D{i}UN", "shape": "unit", "attrs": {}, "generics": [], "fields": []}
    G = {"kind": "struct", "name": f"D{i}G", "shape": "named", "attrs": {}, "generics": [{"name": "T"}],
         "fields": [{"name": "t", "ty": PARAM("T"), "attrs": {}}, {"name": "n", "ty": VEC(PARAM("T")), "attrs": {}}]}
    OV = {"kind": "struct", "name": f"D{i}OV", "shape": "named", "attrs": {"type": "string"}, "generics": [], "serde": True, "fields": [{"name": "z", "ty": P("u8"), "attrs": {}}]}
    # two flattened enums in a struct without own fields, flattened as the only content of another struct: `(A | B) & (C | D)` passes
    # through the scan that strips one enclosing pair of parentheses (comments inside must be skipped whatever they end with)
    MID = {"kind": "struct", "name": f"D{i}MID", "shape": "named", "attrs": {}, "generics": [],
           "fields": [{"name": "a", "ty": N(EI["name"]), "attrs": {"flatten": True}}, {"name": "b", "ty": N(EA["name"]), "attrs": {"flatten": True}}]}
    TOP = {"kind": "struct", "name": f"D{i}TOP", "shape": "named", "attrs": {}, "generics": [], "fields": [{"name": "m", "ty": N(MID["name"]), "attrs": {"flatten": True}}]}
    return [L, EX, S, EI, EA, EU, T, NT, UN, G, OV, MID, TOP]


def positions(items):
    """every place a doc comment can stand: (kind, path)"""
    pos = []
    for ii, it in enumerate(items):
        pos.append(("container", (ii,)))
        for fi, f in enumerate(it.get("fields", [])):
            kind = "flattened_field" if f["attrs"].get("flatten") else ("named_field" if f.get("name") else "tuple_field")
            pos.append((kind, (ii, fi)))
        for vi, v in enumerate(it.get("variants", [])):
            pos.append(("variant", (ii, "v", vi)))
            for fi, f in enumerate(v["fields"]):
                pos.append(("variant_named_field" if f.get("name") else "variant_tuple_field", (ii, "v", vi, fi)))
    return pos


def put(items, path, docs):
    it = items[path[0]]
    if len(path) == 1: it["attrs"]["docs"] = docs
    elif path[1] == "v" and len(path) == 3: it["variants"][path[2]]["attrs"]["docs"] = docs
    elif path[1] == "v": it["variants"][path[2]]["fields"][path[3]]["attrs"]["docs"] = docs
    else: it["fields"][path[1]]["attrs"]["docs"] = docs


def probes_of(items):
    out = []
    for it in items:
        t = N(it["name"], P("bool")) if it.get("generics") else N(it["name"])
        out.append({"ty": t, "values": []})
    return out


def stream_items(ctx):
    rng = random.Random(ctx.seed * 53 + 9)
    nvar = 10 if ctx.quick else 120
    progs, meta = [], []
    base = base_items(0)
    progs.append({"items": copy.deepcopy(base), "probes": probes_of(base)})
    meta.append([])
    allpos = positions(base)
    for v in range(1, nvar + 1):
        items = copy.deepcopy(base_items(v))
        placed = []
        if v <= 2:
            chosen = allpos                    # documentation everywhere
        else:
            chosen = rng.sample(allpos, rng.choice([1, 2, 4, 8]))
        for kind, path in chosen:
            d = gen_docs(rng, 1)[0]
            put(items, path, d)
            placed.append((kind, path, d))
        if v in (1, 3):
            # a block comment that ends in `**/` (one doc attribute over several lines whose text ends with `*`), and one starting `/**/`-like
            d1, d2 = [" first line\n the last line ends with a star *"], ["/ a slash first\n then more"]
            placed = [x for x in placed if x[1] not in ((3, "v", 0, 0), (4, "v", 1, 0))]
            put(items, (3, "v", 0, 0), d1); placed.append(("variant_named_field", (3, "v", 0, 0), d1))
            put(items, (4, "v", 1, 0), d2); placed.append(("variant_named_field", (4, "v", 1, 0), d2))
        progs.append({"items": items, "probes": probes_of(items)})
        meta.append(placed)
    c = corpus.get(ctx)
    real, _ = e2e.build_and_run(ctx, "c15", progs)
    if real is None:
        return
    model = e2e.run_model_programs(progs, c.chars, os.path.join(vlib.SCRATCH, "e2e-c15"))
    nd = 0
    for prog, R, M in zip(progs, real, model or []):
        for pr, r, m in zip(prog["probes"], R, M):
            for k in ("decl", "inline", "docs", "export_to_string", "inline_flattened"):
                if r.get(k) != m.get(k):
                    nd += 1
                    if nd == 1:
                        ctx.broken.append(f"compiled correspondence (documented items): {json.dumps(pr['ty'])[:120]} {k}: impl={json.dumps(r.get(k), ensure_ascii=False)[:400]} model={json.dumps(m.get(k), ensure_ascii=False)[:400]}")
    fails = 0
    kinds = {}
    def norm(s, v):
        return s.replace(f"D{v}", "D0")
    B = real[0]
    for v in range(1, len(progs)):
        placed = meta[v]
        for qi, (r, b) in enumerate(zip(real[v], B)):
            item = progs[v]["items"][qi]
            mine = [(k, p, d) for k, p, d in placed if p[0] == qi]
            case = {"item": e2e.item_rs(item), "docs_at": [(k, d) for k, p, d in mine]}
            for key in ("decl", "inline", "export_to_string"):
                rv, bv = r.get(key, {}), b.get(key, {})
                if ("ok" in rv) != ("ok" in bv):
                    ctx.violation(f"documentation changes whether {key}() succeeds", case, {"with": rv, "without": bv}); fails += 1
                    continue
                if "ok" not in rv:
                    continue
                s1, c1, st1 = lex(norm(rv["ok"], v))
                s0, c0, st0 = lex(bv["ok"])
                if s1 != s0 or st1 != "code":
                    ctx.violation(f"documentation changes the declared type ({key})", case, {"with": rv["ok"], "without": bv["ok"], "read_with": s1, "read_without": s0}); fails += 1
            ets = r.get("export_to_string", {}).get("ok")
            if ets is None:
                continue
            _, comments, _ = lex(ets)
            for kind, path, d in mine:
                kinds[kind] = kinds.get(kind, 0) + 1
                if not d:
                    continue
                if kind == "container":
                    # one block immediately before `export type`
                    m = [cm for cm in comments if ets[cm[1]:].startswith("\nexport type ")]
                    if len(m) != 1 or not has_text(m[0][2], d):
                        ctx.violation("container documentation is not one comment block immediately before the declaration, containing the text", case, {"file": ets}); fails += 1
                elif kind in ("named_field", "variant_named_field"):
                    f = item["fields"][path[1]] if kind == "named_field" else item["variants"][path[2]]["fields"][path[3]]
                    if f["attrs"].get("skip") or item["attrs"].get("type") or item["attrs"].get("as"):
                        continue      # no property is rendered
                    # the property as the undocumented sibling spells it
                    hits = []
                    for cm in comments:
                        if has_text(cm[2], d):
                            after = ets[cm[1]:]
                            mm = re.match(r"\n(\"[^\"]*\"|[A-Za-z_$][A-Za-z0-9_$]*)\??:", after)
                            if mm:
                                hits.append(mm.group(1))
                    want = f["attrs"].get("rename") or f["name"]
                    if not any(h.strip('"') in (want, camel(want)) for h in hits):
                        ctx.violation("field documentation is not a comment block immediately before the property it documents", case,
                                      {"file": ets, "field": want, "blocks_followed_by": hits}); fails += 1
    ctx.stream("documented items vs their undocumented siblings (compiled)", sum(len(r) for r in real), len(progs) - 1,
               "11 item shapes (named struct with optional / flattened / inlined / type-overridden / renamed fields, tuple, newtype, unit, generic, `type` override, externally / internally / adjacently / "
               "untagged enums with unit / tuple / struct variants) x doc texts from the nasty alphabet at container / field / tuple field / flattened field / variant / variant field positions; "
               "real decl() / inline() / export_to_string(): model = implementation byte for byte; independent lexer: significant characters identical with and without docs; container and "
               "named-field documentation is a comment block immediately before `export type` / the property, containing the text",
               [{"docs_at": [(k, d) for k, p, d in meta[1]][:3]}], {"failures": fails, "positions": kinds})


def camel(s):
    parts = s.split("_")
    return parts[0] + "".join(p[:1].upper() + p[1:] for p in parts[1:])


# ---- merged into a shared file ----------------------------------------------------------------------------
def stream_shared(ctx):
    rng = random.Random(ctx.seed * 71 + 3)
    n = 6 if ctx.quick else 60
    progs, meta = [], []
    for v in range(n):
        items = []
        docs = []
        for k, nm in enumerate(["Beta", "Alpha", "Gamma"]):
            it = {"kind": "struct", "name": f"{nm}{v}", "shape": "named", "attrs": {"export_to": "shared.ts"}, "generics": [],
                  "fields": [{"name": "x", "ty": P("u8"), "attrs": {}}, {"name": "y", "ty": OPT(P("String")), "attrs": {}}]}
            cd = gen_docs(rng, 1)[0] if v > 0 else []
            fd = gen_docs(rng, 1)[0] if v > 0 and rng.random() < 0.5 else []
            if v == 2:
                # long non-ASCII documentation on the types merged first (byte length != character count)
                cd, fd = [" " + "測定値（マイクロメートル）。負の値は許されません。" * 6, " Größe in µm – Überprüfung"], [" 寸法の単位はマイクロメートルです。" * 4]
            if v == 1:
                # fixed witness: a blank line inside a block (known finding)
                cd, fd = [["\n para one\n\n para two\n "], [" plain"], [" plain too"]][k], []
            if v == 3:
                # fixed witness: `export type` inside documentation, once with an unrelated word, once with the name of another type of this very file
                cd, fd = [[" plain"], [" mentions export type Zzz = 1;"], [" plain"]][k], ([f" export type Alpha{v} = 2; (the name of another type of this file)"] if k == 2 else [])
            if cd: it["attrs"]["docs"] = cd
            if fd: it["fields"][1]["attrs"]["docs"] = fd
            docs.append((cd, fd))
            items.append(it)
        progs.append({"items": items, "probes": probes_of(items)})
        meta.append(docs)
    real, _ = e2e.build_and_run(ctx, "c15s", progs)
    if real is None:
        return
    out_dir = os.path.join(vlib.SCRATCH, "c15-shared")
    res, trees = e2e.run_export(ctx, "c15s", "to", out_dir)
    fails = 0
    known = {}
    for v in range(n):
        text = trees.get(f"p{v}", {}).get("shared.ts")
        case = {"items": [e2e.item_rs(it) for it in progs[v]["items"]]}
        if text is None:
            ctx.violation("shared file was not written", case, {"steps": res[v] if v < len(res) else None}); fails += 1
            continue
        plain = "".join(f"export type {nm}{v} = {{ x: number, y: string | null, }};" for nm in ["Alpha", "Beta", "Gamma"])
        sig, comments, st = lex(text)
        alltext = [x for cd, fd in meta[v] for x in cd + fd]
        shape = None
        def rendered(ds):
            # the text between `/**` and `*/` as parse_docs lays it out
            return ds[0] if (len(ds) == 1 and "\n" in ds[0]) else "\n" + "\n".join(" *" + d for d in ds) + "\n "
        if any("\n\n" in rendered(ds) for cd_, fd_ in meta[v] for ds in (cd_, fd_) if ds):
            shape = "blankline_in_blockdoc"
        elif any("export type " in x for x in alltext):
            shape = "fielddoc_mentions_decl"
        bad = None
        # the order of the declarations is C05's business, not this property's
        if sorted(sig.split("exporttype")) != sorted(pysig(plain).split("exporttype")) or st != "code":
            bad = "documentation changes what the shared file declares"
        else:
            for (cd, fd), nm in zip(meta[v], ["Beta", "Alpha", "Gamma"]):
                if cd:
                    m = [cm for cm in comments if text[cm[1]:].startswith(f"\nexport type {nm}{v} ")]
                    if len(m) != 1 or not has_text(m[0][2], cd):
                        bad = f"after merging, the documentation of {nm}{v} is no longer one block immediately before its declaration"
        if bad:
            e = next((e for e in ctx.known if e.get("match", {}).get("shape") == shape), None) if shape else None
            if e:
                culprit = [ds for cd_, fd_ in meta[v] for ds in (cd_, fd_) if ds and ("\n\n" in rendered(ds) or any("export type " in x for x in ds))][:1]
                known[e["id"]] = (e, bad + ": docs " + json.dumps(culprit, ensure_ascii=False))
            else:
                ctx.violation(bad, dict(case, docs=meta[v]), {"file": text}); fails += 1
    for e, detail in known.values():
        ctx.known_finding(e, detail)
    ctx.stream("documented types merged into one file", n, n - 1,
               "three documented structs exported (export_all_to) into the same file in non-alphabetical order; independent lexer: the file declares exactly the three undocumented types; "
               "each container block still stands immediately before its declaration", [{"docs": meta[1] if n > 1 else []}], {"failures": fails})


def run(ctx):
    proof = vlib.lean_check(ctx)
    # the lexical contract `EscLex` of the escape table (hypothesis of C15_property_name_rendered) on Rust's own table, for every
    # character of the working alphabets plus every Latin-1 character and a sample of other planes
    from props import corpus
    hb = vlib.build_hookbin(ctx)
    if hb:
        probe = "".join(sorted(set(corpus.ALPHABET) | {chr(i) for i in range(0, 0x250)} | set("\u2028\u2029\ufeff\u200b\u0663\u4e2d\U0001F600\x7f\x85")))
        r = vlib.run_model([vlib.char_table(hb, probe), {"op": "esc_lex", "s": probe}])
        if r is None or "bad" not in r[1] or r[1]["bad"]:
            ctx.broken.append(f"EscLex (hypothesis of C15_property_name_rendered) fails on the escape table taken from Rust for characters {r[1].get('bad') if r else '?'!r}")
        else:
            ctx.stream("lexical contract of the escape table (EscLex)", len(probe), len(probe),
                       "for every probed character (U+0000..U+024F, the working alphabets, line separators, BOM, zero-width space, an Arabic digit, a CJK and an astral character): "
                       "what Rust's `{:?}` + the NUL rule writes for it inside a string literal has no bare `\"` and no dangling backslash (`litBodyB`, proven sound for `LitBody`)",
                       [], {"characters": len(probe), "bad": 0})
    stream_blocks(ctx, proof)
    stream_items(ctx)
    stream_shared(ctx)
    ctx.assumptions += ["TypeScript's lexical structure is the model of Model/Comment.lean (block / line comments, quoted strings with escapes; template literals and regex literals do not occur in generated files)",
                        "the theorems' context hypothesis (the text before a block ends in code state) is proven for renderings built from quote-free pieces and string literals (C15_rendered_closed, C15_property_name_rendered) and checked on the real outputs by an independent lexer; not proven for user-written `#[ts(type = ..)]` texts",
                        "Rust's own lexing of /// and /** */ into #[doc] attributes is exercised through syn in-process, not modelled"]
    vlib.settle(ctx)
    return ctx.finish(proof=proof)


def replay(ctx, obj):
    c = obj["case"]
    if "item" in c and "form" in c:
        r = vlib.run_macro(ctx, [["parse_docs", c["item"]]], tag="c15r")
        print(json.dumps(r, ensure_ascii=False)[:2000])
    else:
        print(json.dumps(c, ensure_ascii=False)[:2000])
    return 0
