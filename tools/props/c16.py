"""C16 — the derive is total: no panics; conflicts are diagnosed; the rest compiles."""
import itertools, json, os, random, re
import vlib
from props.c10 import I, PU, S, G, tok_src, join

# attribute entries per position: (key, tokens) — valid forms
TS_STRUCT = {"as": [I("as"), PU("="), S("Other")], "type": [I("type"), PU("="), S("string")], "rename": [I("rename"), PU("="), S("Rn")],
             "rename_all": [I("rename_all"), PU("="), S("camelCase")], "tag": [I("tag"), PU("="), S("t")], "export": [I("export")],
             "export_to": [I("export_to"), PU("="), S("sub/")], "optional_fields": [I("optional_fields")],
             "optional_fields=nullable": [I("optional_fields"), PU("="), I("nullable")]}
TS_ENUM = {"as": [I("as"), PU("="), S("Other")], "type": [I("type"), PU("="), S("string")], "rename": [I("rename"), PU("="), S("Rn")],
           "rename_all": [I("rename_all"), PU("="), S("snake_case")], "rename_all_fields": [I("rename_all_fields"), PU("="), S("camelCase")],
           "tag": [I("tag"), PU("="), S("t")], "content": [I("content"), PU("="), S("c")], "untagged": [I("untagged")]}
TS_VARIANT = {"as": [I("as"), PU("="), S("Other")], "type": [I("type"), PU("="), S("string")], "rename": [I("rename"), PU("="), S("Rn")],
              "rename_all": [I("rename_all"), PU("="), S("camelCase")], "inline": [I("inline")], "skip": [I("skip")], "untagged": [I("untagged")]}
TS_FIELD = {"as": [I("as"), PU("="), S("Other")], "type": [I("type"), PU("="), S("string")], "rename": [I("rename"), PU("="), S("rn")],
            "inline": [I("inline")], "skip": [I("skip")], "optional": [I("optional")], "optional=nullable": [I("optional"), PU("="), I("nullable")],
            "flatten": [I("flatten")]}
INVALID = {"unknown": [I("bogus")], "bad_rename_all": [I("rename_all"), PU("="), S("Title Case")], "tag_not_string": [I("tag"), PU("="), {"o": "5"}],
           "optional_bad": [I("optional"), PU("="), I("maybe")], "missing_value": [I("rename")]}
SERDE_FIELD = {"with": [I("with"), PU("="), S("m")], "default": [I("default")], "skip": [I("skip")], "flatten": [I("flatten")], "rename": [I("rename"), PU("="), S("sr")]}
# combinations the documentation calls incompatible: (position, keys) — each must be rejected
DOCUMENTED_CONFLICTS = [("struct", ("type", "as")), ("struct", ("type", "rename_all")), ("struct", ("type", "tag")), ("struct", ("type", "optional_fields")),
                        ("struct", ("as", "tag")), ("struct", ("as", "rename_all")), ("struct", ("as", "optional_fields")),
                        ("enum", ("type", "as")), ("enum", ("type", "rename_all")), ("enum", ("type", "rename_all_fields")), ("enum", ("type", "tag")),
                        ("enum", ("type", "content")), ("enum", ("type", "untagged")), ("enum", ("as", "rename_all")), ("enum", ("as", "rename_all_fields")),
                        ("enum", ("as", "tag")), ("enum", ("as", "content")), ("enum", ("as", "untagged")), ("enum", ("untagged", "tag")),
                        ("enum", ("untagged", "content", "tag")), ("enum", ("untagged", "content")), ("enum", ("content",)),
                        ("variant", ("as", "type")), ("variant", ("as", "rename_all")), ("variant", ("type", "rename_all")), ("variant", ("type", "inline")),
                        ("field", ("type", "as")), ("field", ("type", "inline")), ("field", ("type", "flatten")), ("field", ("type", "optional")),
                        ("field", ("flatten", "as")), ("field", ("flatten", "rename")), ("field", ("flatten", "inline")), ("field", ("flatten", "optional"))]
SHAPE_CONFLICTS = [("tuple", "tag"), ("tuple", "rename_all"), ("tuple", "optional_fields"), ("unit", "tag"), ("unit", "rename_all"), ("unit", "optional_fields")]
TUPLE_FIELD_CONFLICTS = ["flatten", "rename", "optional"]
IDENTS = ["a", "r#type", "fooBar", "__", "é", "_x1"]


def mk_field(named, ts_keys=(), serde_keys=(), extra=None, name="a"):
    ts = [join([TS_FIELD[k] for k in ts_keys] + ([extra] if extra else []))] if (ts_keys or extra) else []
    sd = [join([SERDE_FIELD[k] for k in serde_keys])] if serde_keys else []
    return {"named": named, "ts": ts, "serde": sd, "_keys": list(ts_keys), "_name": name}


def field_src(f, idx):
    a = " ".join(["#[serde(" + " ".join(tok_src(t) for t in l) + ")]" for l in f["serde"]] + ["#[ts(" + " ".join(tok_src(t) for t in l) + ")]" for l in f["ts"]])
    keys = f.get("_keys", [])
    ty = f.get("_ty") or ("Inner" if ("flatten" in keys or "inline" in keys) else "Option<i32>")
    return f"{a} {f['_name']}: {ty}" if f["named"] else f"{a} {ty}"


def body_src(shape, fields):
    if shape == "unit": return ""
    if shape == "named": return " { " + ", ".join(field_src(f, i) for i, f in enumerate(fields)) + " }"
    return "(" + ", ".join(field_src(f, i) for i, f in enumerate(fields)) + ")"


def item_src(it, name="T"):
    a = " ".join(["#[serde(" + " ".join(tok_src(t) for t in l) + ")]" for l in it["serde"]] + ["#[ts(" + " ".join(tok_src(t) for t in l) + ")]" for l in it["ts"]])
    g = it.get("_generics", "")
    wh = it.get("_where", "")          # a where-clause, as written (with or without a trailing comma)
    if not it["is_enum"]:
        b = body_src(it["shape"], it["fields"])
        if it["shape"] == "named":
            return f"{a} struct {name}{g} {wh}{b}"
        return f"{a} struct {name}{g}{b} {wh};"
    vs = []
    for i, v in enumerate(it["variants"]):
        va = " ".join(["#[serde(" + " ".join(tok_src(t) for t in l) + ")]" for l in v["serde"]] + ["#[ts(" + " ".join(tok_src(t) for t in l) + ")]" for l in v["ts"]])
        vs.append(f"{va} V{i}" + body_src(v["shape"], v["fields"]))
    return f"{a} enum {name}{g} {wh} {{ " + ", ".join(vs) + " }"


def strip(it):
    def f(x):
        return {k: v for k, v in x.items() if not k.startswith("_")}
    o = f(it)
    o["fields"] = [f(x) for x in it.get("fields", [])]
    o["variants"] = [dict(f(v), fields=[f(x) for x in v["fields"]]) for v in it.get("variants", [])]
    return o


def gen_items(ctx):
    rng = random.Random(ctx.seed * 97 + 11)
    items = []   # (item, tag)
    shapes = {"named": lambda: [mk_field(True, name="a"), mk_field(True, name="b_c")], "tuple": lambda: [mk_field(False), mk_field(False)],
              "newtype": lambda: [mk_field(False)], "unit": lambda: [], "empty_named": lambda: [], "empty_tuple": lambda: []}
    def sh(s):
        return {"named": "named", "tuple": "tuple", "newtype": "tuple", "unit": "unit", "empty_named": "named", "empty_tuple": "tuple"}[s]
    # structs: every subset (<=3) of container keys x shapes
    keys = list(TS_STRUCT)
    for shape in shapes:
        for n in (0, 1, 2, 3):
            combos = list(itertools.combinations(keys, n))
            rng.shuffle(combos)
            for ks in combos[: (12 if ctx.quick else 200)]:
                if "optional_fields" in ks and "optional_fields=nullable" in ks:
                    continue
                it = {"is_enum": False, "ts": [join([TS_STRUCT[k] for k in ks])] if ks else [], "serde": [], "shape": sh(shape), "fields": shapes[shape](), "variants": [],
                      "_keys": list(ks), "_shape": shape}
                items.append((it, "struct:" + shape))
    # fields: every subset (<=3) of field keys, named and tuple position, plus serde-side keys
    fkeys = list(TS_FIELD)
    for named in (True, False):
        for n in (1, 2, 3):
            for ks in itertools.combinations(fkeys, n):
                if "optional" in ks and "optional=nullable" in ks:
                    continue
                f = mk_field(named, ks)
                it = {"is_enum": False, "ts": [], "serde": [], "shape": "named" if named else "tuple", "fields": [f, mk_field(named, name="z")], "variants": [], "_keys": []}
                items.append((it, "field"))
    for sk in itertools.chain(itertools.combinations(list(SERDE_FIELD), 1), itertools.combinations(list(SERDE_FIELD), 2)):
        for tk in ((), ("as",), ("type",), ("skip",)):
            if "flatten" in sk and "rename" in sk: pass
            f = mk_field(True, tk, sk)
            items.append(({"is_enum": False, "ts": [], "serde": [], "shape": "named", "fields": [f], "variants": [], "_keys": []}, "field:serde"))
    # enums: container subsets x variant shapes x variant keys
    ekeys = list(TS_ENUM)
    vkeys = list(TS_VARIANT)
    for n in (0, 1, 2, 3):
        combos = list(itertools.combinations(ekeys, n))
        rng.shuffle(combos)
        for ks in combos[: (14 if ctx.quick else 100)]:
            vs = []
            for vshape in ("named", "tuple", "newtype", "unit", "empty_named"):
                vk = tuple(rng.sample(vkeys, rng.choice([0, 0, 1, 2])))
                vs.append({"shape": sh(vshape), "ts": [join([TS_VARIANT[k] for k in vk])] if vk else [], "serde": [], "fields": shapes[vshape](), "_keys": list(vk)})
            items.append(({"is_enum": True, "ts": [join([TS_ENUM[k] for k in ks])] if ks else [], "serde": [], "shape": "named", "fields": [], "variants": vs, "_keys": list(ks)}, "enum"))
    for n in (1, 2, 3):
        for vk in itertools.combinations(vkeys, n):
            for vshape in ("named", "newtype", "unit"):
                v = {"shape": sh(vshape), "ts": [join([TS_VARIANT[k] for k in vk])], "serde": [], "fields": shapes[vshape](), "_keys": list(vk)}
                items.append(({"is_enum": True, "ts": [], "serde": [], "shape": "named", "fields": [], "variants": [v], "_keys": []}, "variant"))
    # every documented-incompatible combination, always (not sampled), at its position, in front of every variant / field shape
    def all_variants():
        return [{"shape": sh(vs), "ts": [], "serde": [], "fields": shapes[vs](), "_keys": []} for vs in ("named", "tuple", "newtype", "unit", "empty_named")]
    for pos, combo in DOCUMENTED_CONFLICTS:
        if pos == "struct":
            for shape in ("named", "tuple", "unit"):
                items.append(({"is_enum": False, "ts": [join([TS_STRUCT[k] for k in combo])], "serde": [], "shape": sh(shape), "fields": shapes[shape](), "variants": [],
                               "_keys": list(combo), "_shape": shape}, "conflict:struct"))
        elif pos == "enum":
            items.append(({"is_enum": True, "ts": [join([TS_ENUM[k] for k in combo])], "serde": [], "shape": "named", "fields": [], "variants": all_variants(), "_keys": list(combo)}, "conflict:enum"))
            items.append(({"is_enum": True, "ts": [join([TS_ENUM[k] for k in combo])], "serde": [], "shape": "named", "fields": [], "variants": [], "_keys": list(combo)}, "conflict:enum"))
            items.append(({"is_enum": True, "ts": [join([TS_ENUM[k] for k in combo])], "serde": [], "shape": "named", "fields": [], "_keys": list(combo),
                           "variants": [{"shape": "named", "ts": [[I("skip")]], "serde": [], "fields": shapes["named"](), "_keys": ["skip"]}]}, "conflict:enum"))
        elif pos == "variant":
            for vshape in ("named", "newtype", "unit"):
                v = {"shape": sh(vshape), "ts": [join([TS_VARIANT[k] for k in combo])], "serde": [], "fields": shapes[vshape](), "_keys": list(combo)}
                for cont in ([], ["tag"], ["tag", "content"], ["untagged"]):
                    items.append(({"is_enum": True, "ts": [join([TS_ENUM[k] for k in cont])] if cont else [], "serde": [], "shape": "named", "fields": [], "variants": [all_variants()[3], v], "_keys": list(cont)}, "conflict:variant"))
        elif pos == "field":
            for named in (True, False):
                f = mk_field(named, combo)
                items.append(({"is_enum": False, "ts": [], "serde": [], "shape": "named" if named else "tuple", "fields": [mk_field(named, name="z"), f], "variants": [], "_keys": []}, "conflict:field"))
                if named:
                    items.append(({"is_enum": True, "ts": [], "serde": [], "shape": "named", "fields": [], "_keys": [],
                                   "variants": [{"shape": "named", "ts": [], "serde": [], "fields": [f], "_keys": []}]}, "conflict:field"))
    # invalid values / unknown keys at every position
    for iname, toks in INVALID.items():
        items.append(({"is_enum": False, "ts": [toks], "serde": [], "shape": "named", "fields": [mk_field(True)], "variants": [], "_keys": []}, "invalid:struct:" + iname))
        items.append(({"is_enum": False, "ts": [], "serde": [], "shape": "named", "fields": [mk_field(True, (), (), toks)], "variants": [], "_keys": []}, "invalid:field:" + iname))
        items.append(({"is_enum": True, "ts": [toks], "serde": [], "shape": "named", "fields": [], "variants": [{"shape": "unit", "ts": [], "serde": [], "fields": []}], "_keys": []}, "invalid:enum:" + iname))
        items.append(({"is_enum": True, "ts": [], "serde": [], "shape": "named", "fields": [], "variants": [{"shape": "unit", "ts": [toks], "serde": [], "fields": []}], "_keys": []}, "invalid:variant:" + iname))
    # unusual identifiers under rename_all (no panics)
    for ident in IDENTS:
        for rule in ("camelCase", "PascalCase", "snake_case", "kebab-case", "SCREAMING_SNAKE_CASE", "lowercase", "UPPERCASE"):
            it = {"is_enum": False, "ts": [[I("rename_all"), PU("="), S(rule)]], "serde": [], "shape": "named", "fields": [mk_field(True, name=ident)], "variants": [], "_keys": []}
            items.append((it, "ident"))
    # generics with lifetimes, const parameters, bounds, where clauses, defaults; parameters used in ordinary, skipped and inlined positions
    def gf(name, ty, keys=()):
        f = mk_field(True, keys, name=name)
        f["_ty"] = ty
        return f
    for g, fs in [("<P>", [gf("a", "P")]),
                  ("<'a, P: Clone + 'a, const N: usize>", [gf("a", "&'a P"), gf("b", "[u8; N]")]),
                  ("<P = i32, Q: std::fmt::Debug = String>", [gf("a", "P"), gf("b", "Vec<Q>")]),
                  ("<P, Q>", [gf("a", "P"), gf("b", "Q", ("skip",))]),
                  ("<P>", [gf("a", "std::marker::PhantomData<P>")]),
                  ("<P>", [gf("a", "Option<P>", ("optional",))]),
                  # const parameters with DEFAULTS (a default may not be repeated on the generated impl), before and after type parameters
                  ("<const N: usize = 4>", [gf("a", "[u8; N]")]),
                  ("<P, const FLAG: bool = true>", [gf("a", "P")]),
                  ("<const N: usize, P>", [gf("a", "Vec<P>")]),
                  ("<P, const N: usize, Q = String>", [gf("a", "P"), gf("b", "Q")]),
                  ("<'a, const R: usize = 2, const C: usize = R>", [gf("a", "&'a [[u8; C]; R]")]),
                  ("<P: Clone>", [gf("a", "Vec<P>", ("inline",))])]:
        it = {"is_enum": False, "ts": [], "serde": [], "shape": "named", "fields": fs, "variants": [], "_keys": [], "_generics": g}
        items.append((it, "generics"))
    # where-clauses as written: one or two predicates, with and without a trailing comma, on every kind of item
    for wh in ("where P: Clone", "where P: Clone,", "where P: Clone, Q: PartialEq", "where P: Clone, Q: PartialEq,", "where Vec<P>: Clone", "where"):
        for shape, fs in (("named", [gf("a", "P"), gf("b", "Vec<Q>")]), ("tuple", [dict(mk_field(False), _ty="P"), dict(mk_field(False), _ty="Q")])):
            items.append(({"is_enum": False, "ts": [], "serde": [], "shape": shape, "fields": fs, "variants": [], "_keys": [], "_generics": "<P, Q>", "_where": wh}, "generics"))
        items.append(({"is_enum": True, "ts": [], "serde": [], "shape": "named", "fields": [], "_keys": [], "_generics": "<P, Q>", "_where": wh,
                       "variants": [{"shape": "tuple", "ts": [], "serde": [], "fields": [dict(mk_field(False), _ty="P")]},
                                    {"shape": "named", "ts": [], "serde": [], "fields": [gf("q", "Q")]}]}, "generics"))
    items.append(({"is_enum": True, "ts": [], "serde": [], "shape": "named", "fields": [], "_keys": [], "_generics": "<P, Q>",
                   "variants": [{"shape": "tuple", "ts": [], "serde": [], "fields": [dict(mk_field(False), _ty="P")]},
                                {"shape": "tuple", "ts": [[I("skip")]], "serde": [], "fields": [dict(mk_field(False), _ty="Q")], "_keys": ["skip"]}]}, "generics"))
    # `optional` on a field that is not an Option: must end in the documented rustc diagnostic, with every container setting
    for cont in ([], [[I("optional_fields")]], [[I("optional_fields"), PU("="), I("nullable")]]):
        for fty in ("i32", "Inner", "Vec<Option<i32>>", "Option<i32>"):
            for ok in ("optional", "optional=nullable"):
                f = gf("a", fty, (ok,))
                it = {"is_enum": False, "ts": cont, "serde": [], "shape": "named", "fields": [f, gf("b", "String")], "variants": [], "_keys": [], "_expect_optional_err": fty != "Option<i32>"}
                items.append((it, "optional"))
                ev = {"is_enum": True, "ts": [], "serde": [], "shape": "named", "fields": [], "_keys": [], "_expect_optional_err": fty != "Option<i32>",
                      "variants": [{"shape": "named", "ts": [], "serde": [], "fields": [gf("a", fty, (ok,))]}]}
                items.append((ev, "optional"))
    # everything skipped
    items.append(({"is_enum": False, "ts": [], "serde": [], "shape": "tuple", "fields": [mk_field(False, ("skip",)), mk_field(False, ("skip",))], "variants": [], "_keys": []}, "allskipped"))
    items.append(({"is_enum": False, "ts": [], "serde": [], "shape": "tuple", "fields": [mk_field(False, ("skip",))], "variants": [], "_keys": []}, "allskipped"))
    items.append(({"is_enum": False, "ts": [], "serde": [], "shape": "named", "fields": [mk_field(True, ("skip",))], "variants": [], "_keys": []}, "allskipped"))
    items.append(({"is_enum": True, "ts": [], "serde": [], "shape": "named", "fields": [], "_keys": [],
                   "variants": [{"shape": "unit", "ts": [[I("skip")]], "serde": [], "fields": [], "_keys": ["skip"]}, {"shape": "tuple", "ts": [[I("skip")]], "serde": [], "fields": [mk_field(False)], "_keys": ["skip"]}]}, "allskipped"))
    return items


def documented(it):
    """positions at which a documented-incompatible combination is present"""
    hits = []
    ks = set(k.split("=")[0] for k in it.get("_keys", []))
    pos = "enum" if it["is_enum"] else "struct"
    for p, combo in DOCUMENTED_CONFLICTS:
        if p == pos and set(combo) <= ks and not (combo == ("content",) and "tag" in ks):
            hits.append((p, combo))
    if not it["is_enum"]:
        shape = it.get("_shape", it["shape"])
        for s, k in SHAPE_CONFLICTS:
            if (s == shape or (s == "tuple" and shape in ("newtype", "empty_tuple"))) and k in ks and not ({"type", "as"} & ks):
                hits.append(("struct-shape", (s, k)))
        if not ({"type", "as"} & ks):
            for f in it["fields"]:
                fk = set(k.split("=")[0] for k in f.get("_keys", []))
                for p, combo in DOCUMENTED_CONFLICTS:
                    if p == "field" and set(combo) <= fk:
                        hits.append((p, combo))
                if not f["named"]:
                    for k in TUPLE_FIELD_CONFLICTS:
                        if k in fk:
                            hits.append(("tuple-field", (k,)))
    else:
        if not ({"type", "as"} & ks):
            for v in it["variants"]:
                vk = set(v.get("_keys", []))
                for p, combo in DOCUMENTED_CONFLICTS:
                    if p == "variant" and set(combo) <= vk:
                        hits.append((p, combo))
                if v["shape"] != "named" and "rename_all" in vk:
                    hits.append(("variant-shape", ("rename_all",)))
    return hits


def run(ctx):
    proof = vlib.lean_check(ctx)
    gen = gen_items(ctx)
    lines = [["expand", item_src(it)] for it, _ in gen]
    total = fails = 0
    tags = {}
    for feats, compat in ((("serde-compat",), True), ((), False)):
        real = vlib.run_macro(ctx, lines, features=feats, tag="c16")
        if real is None:
            continue
        mlines = [{"op": "derive_outcome", "serde_compat": compat, **strip(it)} for it, _ in gen]
        model = vlib.run_model(mlines)
        def cls(x):
            if "panic" in x: return "panic"
            if "ok" in x: return "ok"
            return "err"
        canon_r = [{"class": cls(r), "msg": r.get("err") if cls(r) == "err" else None} for r in real]
        canon_m = [{"class": cls(m), "msg": m.get("err") if cls(m) == "err" else None} for m in (model or [])]
        # messages of value-parse errors come from syn: compare the class only for those
        def canon(x):
            if x["class"] == "err" and x["msg"] in ("value", "Unknown attribute", "expected identifier", "expected `,`"):
                return {"class": "err"}
            return x
        cr = [canon(x) if canon(m) == {"class": "err"} else x for x, m in zip(canon_r, canon_m)]
        cr = [{"class": "err"} if (m.get("class") == "err" and m.get("msg") in ("value", "Unknown attribute", "expected identifier", "expected `,`") and r["class"] == "err") else r for r, m in zip(canon_r, canon_m)]
        cm = [canon(m) for m in canon_m]
        vlib.compare(ctx, f"derive outcome (features={list(feats)})", mlines, cr, cm if model else None)
        for (it, tag), r in zip(gen, real):
            total += 1
            tags[tag.split(":")[0]] = tags.get(tag.split(":")[0], 0) + 1
            case = {"item": item_src(it), "features": list(feats), "kind": tag}
            if "panic" in r:
                fails += 1
                ctx.violation("the derive panics", case, {})
                continue
            hits = documented(it)
            if hits and "ok" in r and compat:
                fails += 1
                ctx.violation(f"a combination documented as incompatible is accepted: {hits[0]}", case, {"expansion": r["ok"][:300]})
            if tag.startswith("invalid:") and "ok" in r:
                fails += 1
                ctx.violation("an invalid / unknown attribute is silently accepted", case, {})
    compile_stream(ctx, gen)
    ctx.stream("derive outcome in-process (expand)", total, len(gen),
               "structs of 6 shapes x every subset (<=3) of 9 container keys; fields: every subset (<=3) of 8 ts keys in named and tuple position + serde-side keys; enums: container subsets x "
               "5 variant shapes x variant keys; invalid values / unknown keys at all 4 positions; unusual identifiers x 7 rename rules; generics with lifetimes/consts/bounds/defaults; "
               "2 feature builds; outcome class and message: model vs implementation; oracle: never a panic, documented conflicts rejected, invalid attributes rejected",
               [{"item": item_src(gen[7][0])}], {"failures": fails, "kinds": tags})
    ctx.assumptions += ["rustc's verdict on an expansion is not modelled: accepted items are compiled in batches next to control copies (compile stream)",
                        "attribute values restricted as in C10"]
    vlib.settle(ctx)
    return ctx.finish(proof=proof)


def renamed_crate_stream(ctx, acc, build_env):
    """the same accepted items in a crate that knows ts-rs only under ANOTHER name (`ts-renamed = { package = "ts-rs" }`, `#[ts(crate = "ts_renamed")]`):
    every path the expansion writes has to go through the rename — a literal `::ts_rs::` does not resolve there"""
    import shutil
    items = acc[: (120 if ctx.quick else 600)]
    fixed = ["struct T { #[ts(flatten)] inner: Inner }", "struct T { a: u8, #[ts(flatten)] inner: Inner }", "struct T { #[ts(flatten)] inner: Inner, #[ts(flatten)] other: Other }",
             "enum T { A { #[ts(flatten)] inner: Inner }, B { x: u8, #[ts(flatten)] inner: Inner } }", "struct T { #[ts(inline)] inner: Inner, #[ts(optional)] o: Option<Inner> }",
             "struct T<P> { p: P, v: Vec<P> }", "#[ts(tag = \"t\", content = \"c\")] enum T { A(Inner), B { x: u8 }, C }", "struct T(Inner, #[ts(skip)] u8);", "struct T;",
             "#[ts(export, export_to = \"r/\")] struct T { a: [u8; 3], m: std::collections::HashMap<String, Inner> }", "#[ts(as = \"Inner\")] struct T { z: u8 }",
             "#[ts(concrete(P = u8))] struct T<P> { p: P }", "struct T<const N: usize = 2> { a: [u8; N] }"]
    d = os.path.join(vlib.BUILD, "e2e-c16r")
    os.makedirs(os.path.join(d, "src"), exist_ok=True)
    os.makedirs(os.path.join(d, ".cargo"), exist_ok=True)
    shutil.copy(os.path.join(vlib.REPO, "Cargo.lock"), os.path.join(d, "Cargo.lock"))
    open(os.path.join(d, ".cargo", "config.toml"), "w").write("[net]\noffline = true\n")
    open(os.path.join(d, "Cargo.toml"), "w").write(f'''[package]
name = "e2e-c16r"
version = "0.1.0"
edition = "2021"
[workspace]
[dependencies]
ts-renamed = {{ package = "ts-rs", path = "{vlib.REPO}/ts-rs" }}
[profile.dev]
debug = false
''')
    srcs = [s_ for s_ in fixed] + [item_src(it, "T") for it, _ in items]
    L = ["#![allow(dead_code, non_snake_case, non_camel_case_types, unused, uncommon_codepoints, mixed_script_confusables)]", "fn main() {}",
         "#[derive(ts_renamed::TS)] #[ts(crate = \"ts_renamed\")] pub struct Inner { pub q: u8 }", "#[derive(ts_renamed::TS)] #[ts(crate = \"ts_renamed\")] pub struct Other { pub o: u8 }",
         "mod m { pub fn serialize() {} }"]
    for i, src in enumerate(srcs):
        L.append(f"mod i{i} {{ use super::*; #[derive(ts_renamed::TS)] #[ts(crate = \"ts_renamed\")] {src} }}")
    p = os.path.join(d, "src", "main.rs")
    text = "\n".join(L) + "\n"
    if not os.path.exists(p) or open(p).read() != text:
        open(p, "w").write(text)
    import e2e
    build_env["CARGO_TARGET_DIR"] = e2e.target_dir()
    rc, out = vlib.sh(["cargo", "check", "--offline", "--quiet", "--message-format=short"], cwd=d, env=build_env, timeout=3000)
    bad = {}
    if rc != 0:
        for m in re.finditer(r"src/main\.rs:(\d+):\d+: error(?:\[(E\d+)\])?: ([^\n]*)", out):
            idx = int(m.group(1)) - 6
            if 0 <= idx < len(srcs):
                bad.setdefault(idx, f"{m.group(2) or ''} {m.group(3)}"[:300])
        if not bad:
            ctx.violation("the crate that uses ts-rs under another name does not build and the errors cannot be mapped to items", {"rustc": out[-1500:]}, {})
        for idx, msg in sorted(bad.items())[:4]:
            ctx.violation("the derive accepts the item but its expansion does not compile in a crate that uses ts-rs under another name (`#[ts(crate = \"..\")]`)",
                          {"item": srcs[idx], "rustc": msg}, {})
    ctx.stream("accepted items compiled under a crate rename", len(srcs), len(srcs),
               "13 fixed shapes (one / several flattened fields with and without other fields, flattened variants, inline, optional, generics, const default, tagged enum, tuple, unit, "
               "export_to, as, concrete) and a sample of the accepted items, compiled in a crate whose only dependency is `ts-renamed = { package = \"ts-rs\" }`, every item with "
               "`#[ts(crate = \"ts_renamed\")]`", [{"item": srcs[0]}], {"items_with_errors": len(bad)})


def compile_stream(ctx, gen):
    """accepted items are compiled with the real derive; every one must compile (or be rejected by the documented `optional` diagnostic)"""
    import shutil, subprocess
    real = vlib.run_macro(ctx, [["expand", item_src(it)] for it, _ in gen], features=("serde-compat",), tag="c16c")
    if real is None:
        return
    acc = [(it, tag) for (it, tag), r in zip(gen, real) if "ok" in r]
    rng = random.Random(ctx.seed)
    rng.shuffle(acc)
    acc = [(it, tag) for it, tag in acc if not (it["serde"] or any(f["serde"] for f in it["fields"]) or any(v["serde"] for v in it["variants"]))]
    acc.sort(key=lambda x: 0 if x[1] in ("generics", "allskipped", "optional") else 1)
    acc = acc[: (200 if ctx.quick else 1500)]
    all_acc = list(acc)
    d = os.path.join(vlib.BUILD, "e2e-c16")
    os.makedirs(os.path.join(d, "src"), exist_ok=True)
    os.makedirs(os.path.join(d, ".cargo"), exist_ok=True)
    shutil.copy(os.path.join(vlib.REPO, "Cargo.lock"), os.path.join(d, "Cargo.lock"))
    open(os.path.join(d, ".cargo", "config.toml"), "w").write("[net]\noffline = true\n")
    open(os.path.join(d, "Cargo.toml"), "w").write(f'''[package]
name = "e2e-c16"
version = "0.1.0"
edition = "2021"
[workspace]
[dependencies]
ts-rs = {{ path = "{vlib.REPO}/ts-rs" }}
serde = {{ version = "1", features = ["derive"] }}
[profile.dev]
debug = false
''')
    def source(items):
        L = ["#![allow(dead_code, non_snake_case, non_camel_case_types, unused, uncommon_codepoints, mixed_script_confusables)]", "fn main() {}",
             "#[derive(ts_rs::TS)] pub struct Inner { pub q: u8 }", "#[derive(ts_rs::TS)] pub struct Other { pub o: u8 }", "mod m { pub fn serialize() {} }"]
        for i, (it, tag) in enumerate(items):
            needs_serde = bool(it["serde"]) or any(f["serde"] for f in it["fields"]) or any(v["serde"] for v in it["variants"])
            L.append(f"mod i{i} {{ use super::*; #[derive(ts_rs::TS)] {item_src(it, 'T')} }}")
        return "\n".join(L) + "\n"
    def build(items):
        src = source(items)
        p = os.path.join(d, "src", "main.rs")
        if not os.path.exists(p) or open(p).read() != src:
            open(p, "w").write(src)
        env = vlib.cargo_env()
        import e2e
        env["CARGO_TARGET_DIR"] = e2e.target_dir()
        rc, out = vlib.sh(["cargo", "check", "--offline", "--quiet", "--message-format=short"], cwd=d, env=env, timeout=3000)
        return rc, out
    # items with serde-only attributes cannot be compiled without derive(Serialize): keep ts-only items
    acc = [(it, tag) for it, tag in acc if not (it["serde"] or any(f["serde"] for f in it["fields"]) or any(v["serde"] for v in it["variants"]))]
    seen = set()
    fails = 0
    known_hit = {}
    rounds = 0
    optional_diag = set()
    while True:
        rounds += 1
        rc, out = build(acc)
        if rc == 0:
            break
        bad = {}
        for m in re.finditer(r"src/main\.rs:(\d+):\d+: error(?:\[(E\d+)\])?: ([^\n]*)", out):
            idx = int(m.group(1)) - 6
            if 0 <= idx < len(acc):
                bad.setdefault(idx, (m.group(2) or "", m.group(3)))
        if not bad or rounds > 6:
            ctx.violation("the crate of accepted items does not build and the errors cannot be mapped to items", {"rustc": out[-1500:]}, {})
            fails += 1
            break
        for idx, (code, msg) in sorted(bad.items()):
            it, tag = acc[idx]
            seen.add(item_src(it))
            if "`#[ts(optional)]` can only be used on fields of type `Option`" in msg:
                optional_diag.add(item_src(it))      # the documented diagnostic
                if it.get("_expect_optional_err") is False:
                    fails += 1
                    ctx.violation("`optional` on an Option field is rejected", {"item": item_src(it), "kind": tag, "rustc": msg[:300]}, {})
                continue
            case = {"item": item_src(it), "kind": tag, "rustc": f"{code} {msg}"[:300]}
            e = next((e for e in ctx.known if e.get("match", {}).get("rustc") and e["match"]["rustc"] in f"{code} {msg}" and all(k in item_src(it) for k in e["match"].get("item_contains", []))), None)
            if e:
                known_hit[e["id"]] = (e, case)
                continue
            fails += 1
            if fails <= 5:
                ctx.violation("the derive accepts the item but its expansion does not compile", case, {})
        acc = [x for i, x in enumerate(acc) if i not in bad]
    renamed_crate_stream(ctx, [x for x in all_acc if item_src(x[0]) not in seen and item_src(x[0]) not in optional_diag], build_env=vlib.cargo_env())
    for it, tag in all_acc:
        if it.get("_expect_optional_err") and item_src(it) not in optional_diag:
            fails += 1
            ctx.violation("`#[ts(optional)]` on a field that is not an Option is accepted silently", {"item": item_src(it), "kind": tag}, {})
    for eid, (e, case) in known_hit.items():
        ctx.known_finding(e, f"{case['item']} -> rustc {case['rustc']}")
    ctx.stream("accepted items compiled with the real derive", len(all_acc), len(all_acc),
               "a sample of the items the derive accepts in-process (ts attributes only), each in its own module of one crate, `cargo check`; every rustc error is mapped back to its item; "
               "items with errors are removed and the rest re-checked until the crate builds; `optional` on a non-Option field must end in the documented diagnostic, on an Option field must not",
               [{"item": item_src(all_acc[0][0])}] if all_acc else [], {"items_with_errors": len(seen), "documented_optional_diagnostics": len(optional_diag), "build_rounds": rounds, "failures": fails})


def replay(ctx, obj):
    c = obj["case"]
    r = vlib.run_macro(ctx, [["expand", c["item"]]], features=tuple(c.get("features", ["serde-compat"])), tag="c16r")
    print(json.dumps(r)[:1000])
    return 0
