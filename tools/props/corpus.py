"""Shared compiled corpus (programs -> real derive/serde outputs + model outputs) for C01, C02, C03, C04, C07, C12, C13, C14, C15."""
import json, os, random
import vlib, e2e, gen_corpus

BYTE_FIELDS = ["name", "inline", "inline_flattened", "decl", "decl_concrete", "ident", "output_path", "docs", "export_to_string"]
ALPHABET = "abcdefghijklmnopqrstuvwxyzABCDEFGHIJKLMNOPQRSTUVWXYZ0123456789_$-. éÜnï\"'"


class Corpus:
    pass


def fixed_programs(g):
    """a few hand-written programs that are always part of the corpus: combinations the random generator reaches rarely"""
    from gen_corpus import P, N, OPT, VEC
    progs = []
    # the enum-wide `rename_all_fields` against a variant's own `rename_all`, in every representation
    for ri, (rname, attrs) in enumerate((("ext", {}), ("int", {"tag": "kind"}), ("adj", {"tag": "t", "content": "c"}), ("unt", {"untagged": True}))):
        items = []
        for k, (raf, ra) in enumerate((("Kebab", "Camel"), ("ScreamingSnake", "Pascal"), ("Camel", None), (None, "ScreamingKebab"))):
            a = dict(attrs)
            if raf: a["rename_all_fields"] = raf
            vs = [{"name": "Closed", "shape": "named", "attrs": ({"rename_all": ra} if ra else {}),
                   "fields": [{"name": "exit_code", "ty": P("i32"), "attrs": {}}, {"name": "sent_at", "ty": OPT(P("String")), "attrs": {}}]},
                  {"name": "OpenNow", "shape": "named", "attrs": {}, "fields": [{"name": "x_pos", "ty": P("u8"), "attrs": {}}, {"name": "explicit", "ty": P("bool"), "attrs": {"rename": "Explicit-Name"}}]},
                  {"name": "Idle", "shape": "unit", "attrs": {}, "fields": []}]
            items.append({"kind": "enum", "name": f"Fx{rname}{k}", "attrs": a, "generics": [], "variants": vs, "de": True})
        imap = {x["name"]: x for x in items}
        progs.append({"items": items, "probes": [{"ty": N(x["name"]), "values": g.all_variant_values(N(x["name"]), imap), "de": True} for x in items]})
    # tuple variants / structs whose fields are all skipped (serde keeps the tuple style: `[]`)
    items = []
    for rname, attrs in (("ext", {}), ("adj", {"tag": "t", "content": "c"}), ("unt", {"untagged": True})):
        sk = lambda t: {"name": None, "ty": P(t), "attrs": {"skip": True, "default": True}}
        items.append({"kind": "enum", "name": f"FxSk{rname}", "attrs": dict(attrs), "generics": [], "de": True,
                      "variants": [{"name": "Pair", "shape": "tuple", "attrs": {}, "fields": [sk("u8"), sk("String")]},
                                   {"name": "One", "shape": "tuple", "attrs": {}, "fields": [sk("bool")]},
                                   {"name": "Mixed", "shape": "tuple", "attrs": {}, "fields": [sk("u8"), {"name": None, "ty": P("String"), "attrs": {}}]},
                                   {"name": "Plain", "shape": "named", "attrs": {}, "fields": [{"name": "v", "ty": P("u8"), "attrs": {}}]}]})
    items.append({"kind": "struct", "name": "FxSkT", "shape": "tuple", "attrs": {}, "generics": [], "de": True, "fields": [
        {"name": None, "ty": P("u8"), "attrs": {"skip": True, "default": True}}, {"name": None, "ty": P("bool"), "attrs": {"skip": True, "default": True}}]})
    imap = {x["name"]: x for x in items}
    progs.append({"items": items, "probes": [{"ty": N(x["name"]), "values": g.all_variant_values(N(x["name"]), imap), "de": True} for x in items]})
    # the same type twice in one item, in both orders: inlined / flattened and by name (the by-name use needs its import either way)
    leaf = {"kind": "struct", "name": "FxLeaf", "shape": "named", "attrs": {}, "generics": [], "de": True,
            "fields": [{"name": "leaf_v", "ty": P("u8"), "attrs": {}}]}
    leaf2 = {"kind": "struct", "name": "FxLeafB", "shape": "named", "attrs": {}, "generics": [], "de": True,
             "fields": [{"name": "leaf_w", "ty": VEC(N("FxLeaf")), "attrs": {}}]}
    items = [leaf, leaf2]
    def two(name, a1, a2, t1=None, t2=None):
        return {"kind": "struct", "name": name, "shape": "named", "attrs": {}, "generics": [], "de": True,
                "fields": [{"name": "first", "ty": t1 or N("FxLeaf"), "attrs": a1}, {"name": "second", "ty": t2 or N("FxLeaf"), "attrs": a2}]}
    items += [two("FxInlThenName", {"inline": True}, {}), two("FxNameThenInl", {}, {"inline": True}),
              two("FxFlatThenName", {"flatten": True}, {}), two("FxNameThenFlat", {}, {"flatten": True}),
              two("FxInlThenVec", {"inline": True}, {}, t2=VEC(N("FxLeaf"))), two("FxInlBThenName", {"inline": True}, {}, t1=N("FxLeafB")),
              two("FxOptInlThenName", {"inline": True}, {}, t1=OPT(N("FxLeaf")), t2=OPT(N("FxLeaf")))]
    items.append({"kind": "enum", "name": "FxTwiceVar", "attrs": {"tag": "t", "content": "c"}, "generics": [], "de": True,
                  "variants": [{"name": "A", "shape": "named", "attrs": {}, "fields": [{"name": "first", "ty": N("FxLeaf"), "attrs": {"inline": True}},
                                                                                  {"name": "second", "ty": N("FxLeaf"), "attrs": {}}]},
                               {"name": "B", "shape": "tuple", "attrs": {}, "fields": [{"name": None, "ty": N("FxLeaf"), "attrs": {"inline": True}}]},
                               {"name": "C", "shape": "tuple", "attrs": {}, "fields": [{"name": None, "ty": N("FxLeaf"), "attrs": {}}]}]})
    imap = {x["name"]: x for x in items}
    progs.append({"items": items, "probes": [{"ty": N(x["name"]), "values": g.all_variant_values(N(x["name"]), imap)[:3], "de": True} for x in items]})
    # one shared file whose types import OVERLAPPING but different name sets from another shared file (one statement per file,
    # every name once, whatever the order of the merges)
    items = []
    for n in ("FxD1", "FxD2", "FxD3"):
        items.append({"kind": "struct", "name": n, "shape": "named", "attrs": {"export_to": "fxdeps.ts"}, "generics": [], "de": True,
                      "fields": [{"name": "v", "ty": P("u8"), "attrs": {}}]})
    for n, deps in (("FxS1", ["FxD1"]), ("FxS2", ["FxD1", "FxD2"]), ("FxS3", ["FxD2", "FxD3"]), ("FxS4", ["FxD3", "FxD1"])):
        items.append({"kind": "struct", "name": n, "shape": "named", "attrs": {"export_to": "fxshared/all.ts"}, "generics": [], "de": True,
                      "fields": [{"name": f"f{k}", "ty": N(d), "attrs": {}} for k, d in enumerate(deps)]})
    imap = {x["name"]: x for x in items}
    progs.append({"items": items, "probes": [{"ty": N(x["name"]), "values": g.all_variant_values(N(x["name"]), imap)[:2], "de": True} for x in items]})
    # an unsupported bare-word serde key in front of supported ones (serde reads both; ts-rs has to skip exactly the one it does not know)
    items = [{"kind": "enum", "name": "FxDeny", "attrs": {"serde_bare_first": ["deny_unknown_fields"], "tag": "kind", "rename_all": "Snake"}, "generics": [], "de": True,
              "variants": [{"name": "CircleShape", "shape": "named", "attrs": {}, "fields": [{"name": "radius", "ty": P("u8"), "attrs": {}}]},
                           {"name": "Dot", "shape": "unit", "attrs": {}, "fields": []}]},
             {"kind": "struct", "name": "FxDenyS", "shape": "named", "attrs": {"serde_bare_first": ["deny_unknown_fields"], "rename_all": "Camel"}, "generics": [], "de": True,
              "fields": [{"name": "user_name", "ty": P("String"), "attrs": {}}, {"name": "last_seen", "ty": OPT(P("u32")), "attrs": {}}]}]
    imap = {x["name"]: x for x in items}
    progs.append({"items": items, "probes": [{"ty": N(x["name"]), "values": g.all_variant_values(N(x["name"]), imap), "de": True} for x in items]})
    # user types hidden from the derive's syntax: behind a type ALIAS of a container (`type FxItems = Vec<FxItem>`), and as the argument
    # of a generic type that is inlined (`#[ts(inline)] first: FxPage<Vec<FxRow>>`) — the derive sees a plain path / a parameter `T`,
    # the dependency is only reached through `visit_generics`
    items = [{"kind": "struct", "name": "FxItem", "shape": "named", "attrs": {}, "generics": [], "de": True, "fields": [{"name": "sku", "ty": P("u32"), "attrs": {}}]},
             {"kind": "struct", "name": "FxRow", "shape": "named", "attrs": {}, "generics": [], "de": True, "fields": [{"name": "cells", "ty": P("u8"), "attrs": {}}]},
             {"kind": "struct", "name": "FxCart", "shape": "named", "attrs": {}, "generics": [], "de": True,
              "fields": [{"name": "items", "ty": dict(VEC(N("FxItem")), alias="FxItems"), "attrs": {}}, {"name": "count", "ty": P("u8"), "attrs": {}}]},
             {"kind": "struct", "name": "FxPage", "shape": "named", "attrs": {}, "generics": [{"name": "T"}], "de": True,
              "fields": [{"name": "content", "ty": {"k": "param", "n": "T"}, "attrs": {}}]},
             {"kind": "struct", "name": "FxBook", "shape": "named", "attrs": {}, "generics": [], "de": True,
              "fields": [{"name": "first", "ty": N("FxPage", VEC(N("FxRow"))), "attrs": {"inline": True}}, {"name": "pages", "ty": P("u16"), "attrs": {}}]}]
    imap = {x["name"]: x for x in items}
    progs.append({"items": items, "aliases": [{"name": "FxItems", "ty": VEC(N("FxItem"))}],
                  "probes": [{"ty": N(x["name"]) if not x["generics"] else N(x["name"], P("bool")), "values": g.all_variant_values(N(x["name"]) if not x["generics"] else N(x["name"], P("bool")), imap)[:2], "de": True} for x in items]})
    # `#[ts(inline)]` on the field of a newtype variant of an INTERNALLY tagged enum whose field type is a union: whether the type is
    # written by name or inlined, `{ tag } & ..` must keep the tag on every alternative (`&` binds tighter than `|`)
    items = [{"kind": "enum", "name": "FxShape", "attrs": {}, "generics": [], "de": True,
              "variants": [{"name": "Circle", "shape": "named", "attrs": {}, "fields": [{"name": "radius", "ty": P("u8"), "attrs": {}}]},
                           {"name": "Square", "shape": "named", "attrs": {}, "fields": [{"name": "side", "ty": P("u8"), "attrs": {}}]}]},
             {"kind": "enum", "name": "FxIntInl", "attrs": {"tag": "type"}, "generics": [], "de": True,
              "variants": [{"name": "Draw", "shape": "tuple", "attrs": {}, "fields": [{"name": None, "ty": N("FxShape"), "attrs": {"inline": True}}]},
                           # (also by name: without it the recorded finding C03-tagged-newtype-inline — printed by name, registered as inlined — shows)
                           {"name": "Keep", "shape": "named", "attrs": {}, "fields": [{"name": "shape", "ty": N("FxShape"), "attrs": {}}]},
                           {"name": "Clear", "shape": "unit", "attrs": {}, "fields": []}]},
             {"kind": "enum", "name": "FxIntName", "attrs": {"tag": "type"}, "generics": [], "de": True,
              "variants": [{"name": "Draw", "shape": "tuple", "attrs": {}, "fields": [{"name": None, "ty": N("FxShape"), "attrs": {}}]},
                           {"name": "Clear", "shape": "unit", "attrs": {}, "fields": []},
                           # an individually `untagged` struct variant of an internally tagged enum carries no tag (serde wants it last)
                           {"name": "Raw", "shape": "named", "attrs": {"untagged": True}, "fields": [{"name": "raw_bytes", "ty": P("u8"), "attrs": {}}]}]}]
    # an enum with ONE (untagged) variant whose only content is a flattened union, flattened into a struct next to an own field:
    # `{ id } & (A | B)` — the parentheses of the flattened enum are not optional just because it has one variant
    items += [{"kind": "enum", "name": "FxOneUnt", "attrs": {"untagged": True}, "generics": [], "de": True,
               "variants": [{"name": "Only", "shape": "named", "attrs": {}, "fields": [{"name": "shape", "ty": N("FxShape"), "attrs": {"flatten": True}}]}]},
              {"kind": "struct", "name": "FxOuterFl", "shape": "named", "attrs": {}, "generics": [], "de": True,
               "fields": [{"name": "id", "ty": P("u8"), "attrs": {}}, {"name": "any", "ty": N("FxOneUnt"), "attrs": {"flatten": True}}]}]
    imap = {x["name"]: x for x in items}
    progs.append({"items": items, "probes": [{"ty": N(x["name"]), "values": g.all_variant_values(N(x["name"]), imap), "de": True} for x in items]})
    # every inflection rule on identifiers that are not in the conventional case: leading underscores, capitals, digits, acronyms,
    # non-ASCII cased letters after an ASCII first character (serde changes the case of ASCII letters only; serde_derive itself panics
    # on camelCase when the FIRST character is not ASCII — it slices one byte — so such identifiers are not valid inputs)
    # (serde's rules are defined on the conventional spelling; ts-rs has to agree with what serde does on the others too)
    for rule in gen_corpus.RULES:
        items = [{"kind": "struct", "name": f"FxRaS{rule}", "shape": "named", "attrs": {"rename_all": rule}, "generics": [], "de": True,
                  "fields": [{"name": fn, "ty": P("u8"), "attrs": {}} for fn in ("_id", "user_name", "_rev_tag", "URL_path", "User_id", "x2_y", "trailing_", "__dunder_x", "x_Übung_é", "naïve_Ü")]},
                 {"kind": "enum", "name": f"FxRaE{rule}", "attrs": {"rename_all": rule}, "generics": [], "de": True,
                  "variants": [{"name": vn, "shape": "unit", "attrs": {}, "fields": []} for vn in ("Http_Error", "tcp_v4", "HTTPServer", "Plain", "A1b", "X_", "AÜber", "Xé_Üï")]
                              + [{"name": "With_Fields", "shape": "named", "attrs": {}, "fields": [{"name": "_inner_id", "ty": P("u8"), "attrs": {}}]}]},
                 {"kind": "enum", "name": f"FxRaF{rule}", "attrs": {"rename_all_fields": rule, "tag": "t"}, "generics": [], "de": True,
                  "variants": [{"name": "V", "shape": "named", "attrs": {}, "fields": [{"name": fn, "ty": P("bool"), "attrs": {}} for fn in ("_id", "Url_Path", "plain_one", "o_Ünï_é")]}]}]
        imap = {x["name"]: x for x in items}
        progs.append({"items": items, "probes": [{"ty": N(x["name"]), "values": g.all_variant_values(N(x["name"]), imap), "de": True} for x in items]})
    return progs


def get(ctx, n_quick=40, n_thorough=400, tag="main"):
    """generate, compile, run, model, compare. Returns Corpus (fields may be None if the build failed)."""
    c = Corpus()
    g = gen_corpus.Gen(random.Random(ctx.seed * 7919 + 13))
    n = n_quick if ctx.quick else n_thorough
    c.programs = [g.program(i) for i in range(n)] + fixed_programs(g)
    c.tags = g.tags
    c.cwd = os.path.join(vlib.SCRATCH, f"e2e-{tag}")
    hb = vlib.build_hookbin(ctx)
    c.chars = vlib.char_table(hb, ALPHABET) if hb else {"op": "set_chars", "table": []}
    c.real, _ = e2e.build_and_run(ctx, tag, c.programs)
    c.model = e2e.run_model_programs(c.programs, c.chars, c.cwd) if c.real is not None else None
    c.n_probes = sum(len(p["probes"]) for p in c.programs)
    c.disagreements = []
    if c.real is None or c.model is None:
        if c.real is not None:
            ctx.broken.append("compiled corpus: model driver unavailable")
        return c
    for pi, (prog, R, M) in enumerate(zip(c.programs, c.real, c.model)):
        for qi, (pr, r, m) in enumerate(zip(prog["probes"], R, M)):
            for k in BYTE_FIELDS:
                if r.get(k) != m.get(k):
                    c.disagreements.append((pi, qi, k, r.get(k), m.get(k)))
            for k in ("deps", "generics"):
                # as SETS: the derive keeps one entry per syntactically different field type, so a type reached both directly and through
                # a type alias is listed twice by dependencies(); nothing observable depends on the multiplicity
                if sorted(set(map(tuple, r.get(k, [])))) != sorted(set(map(tuple, m.get(k, [])))):
                    c.disagreements.append((pi, qi, k, r.get(k), m.get(k)))
            rv = [e2e.jnorm(x) for x in r.get("values", [])]
            mv = [e2e.jnorm(x) for x in m.get("values", [])]
            if rv != mv:
                c.disagreements.append((pi, qi, "values", r.get("values"), m.get("values")))
    return c


def report_disagreements(ctx, c, fields, stream):
    """record a broken correspondence stream for the fields a property depends on"""
    ds = [d for d in c.disagreements if d[2] in fields]
    if ds:
        pi, qi, k, rv, mv = ds[0]
        ctx.broken.append(f"compiled correspondence ({stream}): {len(ds)} disagreements on {sorted({d[2] for d in ds})}; first: program {pi} probe "
                          f"{json.dumps(c.programs[pi]['probes'][qi]['ty'])[:200]} field {k}: impl={json.dumps(rv, ensure_ascii=False)[:400]} model={json.dumps(mv, ensure_ascii=False)[:400]}")
    return ds


def item_decls(c, pi):
    """real decl() strings of the item probes of program pi (first instantiation of each item)"""
    out, seen = [], set()
    for pr, r in zip(c.programs[pi]["probes"], c.real[pi]):
        if pr["ty"]["k"] == "named" and pr["ty"]["id"] not in seen and "ok" in r.get("decl", {}):
            seen.add(pr["ty"]["id"])
            out.append(r["decl"]["ok"])
    return out


def has_dup_keys(jtxt):
    dup = [False]
    def hook(kv):
        ks = [k for k, _ in kv]
        if len(ks) != len(set(ks)):
            dup[0] = True
        return dict(kv)
    try:
        json.loads(jtxt, object_pairs_hook=hook)
    except Exception:
        return True
    return dup[0]
