"""C13 — bindings are a deterministic function of the source and configuration."""
import json, os, random, shutil
import vlib, e2e, gen_corpus
from props import corpus, uni

STR_FIELDS = ["name", "inline", "inline_flattened", "decl", "decl_concrete", "ident", "output_path", "docs", "export_to_string"]


def inventory_delta(ctx):
    """when `C13_inventory` no longer checks: say which (file, construct) counts differ from the reviewed allow-list, so that the
    replay names what has to be reviewed (a count can also change through a harmless rewrite — then the allow-list is updated)"""
    import re as _re
    try:
        tables = json.load(open(os.path.join(vlib.LEAN, "TsRsVerif", "Generated", "tables.json")))
        per_file = tables["order_inventory"]
        inv = {}
        for a, b, c in per_file:
            inv[(a.split("/")[0], b)] = inv.get((a.split("/")[0], b), 0) + c
        src = open(os.path.join(vlib.LEAN, "TsRsVerif", "Props", "C13.lean")).read()
        body = src[src.index("def orderAllowList"):src.index("theorem C13_inventory")]
        allow = {(a, b): int(c) for a, b, c in _re.findall(r'\("([^"]+)",\s*"([^"]+)",\s*(\d+)\)', body)}
    except (OSError, ValueError, KeyError):
        return
    delta = []
    for k in sorted(set(inv) | set(allow)):
        if inv.get(k, 0) != allow.get(k, 0):
            where = ", ".join(f"{a} {c}" for a, b, c in per_file if a.split("/")[0] == k[0] and b == k[1])
            delta.append(f"{k[0]}: {k[1]} {allow.get(k, 0)} -> {inv.get(k, 0)} (now: {where or 'nowhere'})")
    if delta:
        ctx.broken.append("theorem C13_inventory (inventory of hash containers / environment reads / thread primitives per crate = reviewed allow-list) no longer checks; "
                          "totals that changed: " + "; ".join(delta[:12]))


def run(ctx):
    proof = vlib.lean_check(ctx)
    inventory_delta(ctx)
    g = gen_corpus.Gen(random.Random(ctx.seed * 7919 + 13))
    n = 14 if ctx.quick else 120
    programs = [g.program(i) for i in range(n)]
    # dependency-rich extras: many imports per file, shared files
    modes = ["sorted", "reversed", "seed:1", None, None] if ctx.quick else ["sorted", "reversed", "seed:1", "seed:2", "seed:3", None, None, None]
    dumps, trees = [], []
    for k, mode in enumerate(modes):
        tag = f"c13-{k}"
        env_extra = {"TS_RS_VERIF_DEP_ORDER": mode} if mode else {}
        # a fresh target directory for the corpus crate itself: the derive macro runs again (fresh process, fresh hash seeds)
        d = os.path.join(vlib.BUILD, f"e2e-{tag}")
        for f in ("deps", ".fingerprint", "incremental"):
            p = os.path.join(e2e.target_dir(), "debug", f)
            if os.path.isdir(p):
                for x in os.listdir(p):
                    if x.startswith(f"e2e_c13_{k}-") or x.startswith(f"e2e-c13-{k}-") or x.startswith(f"e2e_c13_{k}.") or x.startswith(f"e2e-c13-{k}."):
                        q = os.path.join(p, x)
                        shutil.rmtree(q, ignore_errors=True) if os.path.isdir(q) else os.remove(q)
        real, _ = e2e.build_and_run(ctx, tag, programs, env_extra=env_extra)
        if real is None:
            vlib.settle(ctx)
            return ctx.finish(proof=proof)
        dumps.append(real)
        out = os.path.join(vlib.SCRATCH, "c13", f"out{k}")
        how = ["to", "env", "to"][k % 3]
        _, t = e2e.run_export(ctx, tag, how, out, env_extra=env_extra)
        trees.append(t)
        if k == 0:
            # running the export a second time (a new process) onto the same, uncleaned directory must change nothing
            _, t2 = e2e.run_export(ctx, tag, how, out, env_extra=env_extra, clean=False)
            if t2 != t:
                diff = [(p, f) for p in set(t) | set(t2) for f in set(t.get(p, {})) | set(t2.get(p, {})) if t.get(p, {}).get(f) != t2.get(p, {}).get(f)]
                p, f = diff[0]
                pi = int(p[1:]) if p.startswith("p") and p[1:].isdigit() else None
                ctx.violation("running the export twice (second process, same output directory) changes the files",
                              {"items": programs[pi]["items"] if pi is not None else None, "file": f"{p}/{f}"},
                              {"first_run": t.get(p, {}).get(f), "second_run": t2.get(p, {}).get(f), "differing_files": len(diff)})
    fails = 0
    dep_orders = set()
    for pi, prog in enumerate(programs):
        for qi, pr in enumerate(prog["probes"]):
            ref = dumps[0][pi][qi]
            dep_orders.add(json.dumps([d[pi][qi].get("deps") for d in dumps]) != json.dumps([ref.get("deps")] * len(dumps)))
            for k in range(1, len(dumps)):
                cur = dumps[k][pi][qi]
                for f in STR_FIELDS:
                    if cur.get(f) != ref.get(f):
                        fails += 1
                        if fails <= 4:
                            ctx.violation(f"{f}() differs between two builds of the same sources (dependency order `{modes[0]}` vs `{modes[k]}`)",
                                          {"items": prog["items"], "probe": pr["ty"], "function": f, "orders": [modes[0], modes[k]]},
                                          {"a": ref.get(f), "b": cur.get(f)})
    hows = [["to", "env", "to"][k % 3] for k in range(len(trees))]
    def comparable(t, k):
        # files that escape the export directory (`export_to = "../up/.."`) get import paths relative to the DEFAULT directory (C03 finding):
        # they legitimately differ between entry points, which are different configurations; compare them only between like runs
        return t if hows[k] == hows[0] else {p: f for p, f in t.items() if p != "up"}
    for k in range(1, len(trees)):
        if comparable(trees[k], k) != comparable(trees[0], k):
            diff = [(p, f) for p in set(trees[0]) | set(trees[k]) for f in set(trees[0].get(p, {})) | set(trees[k].get(p, {}))
                    if trees[0].get(p, {}).get(f) != trees[k].get(p, {}).get(f) and (hows[k] == hows[0] or p != "up")]
            fails += 1
            p, f = diff[0]
            pi = int(p[1:]) if p.startswith("p") and p[1:].isdigit() else None
            ctx.violation(f"exported files differ between two builds / runs (orders `{modes[0]}` vs `{modes[k]}`, entry points to/env)",
                          {"items": programs[pi]["items"] if pi is not None else None, "file": f"{p}/{f}", "orders": [modes[0], modes[k]]},
                          {"a": trees[0].get(p, {}).get(f), "b": trees[k].get(p, {}).get(f), "differing_files": len(diff)})
    # runs with different thread counts / orders on the compiled universe (shared files, mutual dependencies)
    binary = uni.build(ctx)
    if binary:
        root = os.path.join(vlib.SCRATCH, "u13")
        types, dod = uni.describe(binary, root, None)
        ex = [i for i, t in enumerate(types) if t["output_path"] and "up.ts" not in t["output_path"] and "poproot" not in t["output_path"] and "esc" not in t["output_path"]]
        orders = [ex, list(reversed(ex))] + [random.Random(ctx.seed + s).sample(ex, len(ex)) for s in range(3)]
        hs = [{"op": "uhist", "root": root, "steps": [{"k": "export_all", "t": t} for t in o]} for o in orders]
        real = vlib.run_real(binary, hs)
        t0 = uni.tree_of(real[0])
        for o, r in zip(orders[1:], real[1:]):
            if uni.tree_of(r) != t0:
                fails += 1
                ctx.violation("the exported directory depends on the order in which the roots are exported", {"order_a": orders[0], "order_b": o}, {})
        # which entry point wrote a type first must not matter: some dependencies exported ALONE (`TS::export`) before the roots' export_all
        tops = [t for t in ex if not any(t in uni.reach(types, u)[1:] for u in ex if u != t)]
        below = [t for t in ex if t not in tops and any(t in uni.reach(types, u) for u in tops)]
        ref = vlib.run_real(binary, [{"op": "uhist", "root": root, "steps": [{"k": "export_all", "t": t} for t in tops]}])[0]
        for s_ in range(3):
            alone = random.Random(ctx.seed * 3 + s_).sample(below, max(1, len(below) // 2))
            h = {"op": "uhist", "root": root, "steps": [{"k": "export", "t": t} for t in alone] + [{"k": "export_all", "t": t} for t in tops]}
            r = vlib.run_real(binary, [h])[0]
            if uni.tree_of(r) != uni.tree_of(ref) or any(x != "ok" for x in r["steps"]):
                a, b = uni.tree_of(r), uni.tree_of(ref)
                fails += 1
                ctx.violation("the exported directory depends on which entry point wrote a type first (export() of some dependencies before export_all() of the roots)",
                              {"exported_alone_first": [types[t]["name"] for t in alone], "roots": [types[t]["name"] for t in tops], "steps": h["steps"]},
                              {"differing": sorted(k for k in set(a) | set(b) if a.get(k) != b.get(k))[:6], "step_results": r["steps"]})
    # different numbers of test threads: the same types exported into one file sequentially (1 thread) and from N concurrent threads
    from props import c05
    hb = vlib.build_hookbin(ctx)
    trounds = 0
    if hb:
        c05.NOTE = vlib.run_real(hb, [{"op": "consts"}])[0]["ok"]["NOTE"]
        if not hasattr(ctx, "rng"):
            ctx.rng = random.Random(ctx.seed * 17 + 4)
        for gi, gens in enumerate(c05.make_sets(ctx)[:2]):
            big = gens + [{"name": g["name"] + "Y", "text": g["text"].replace("export type " + g["name"], "export type " + g["name"] + "Y")} for g in gens]
            troot = os.path.join(vlib.SCRATCH, "c13", "t")
            seq = vlib.run_real(hb, [{"op": "hist", "root": troot, "steps": [{"k": "mkdir", "p": "$ROOT/out"}] + [{"k": "eam", "p": "$ROOT/out/shared.ts", "name": g["name"], "text": g["text"]} for g in big]}])[0]
            seq_file = c05.final_file(seq)
            rounds = 12 if ctx.quick else 200
            thr = vlib.run_real(hb, [{"op": "threads", "root": troot, "rounds": rounds, "gens": [{"name": g["name"], "text": g["text"]} for g in big]}])[0]
            badr = [x for x in thr.get("ok", []) if not x["ok"] or x["file"] != seq_file]
            trounds += rounds
            if badr or "ok" not in thr or seq_file is None:
                fails += 1
                ctx.violation("the file written by N concurrent test threads differs from the file written by one thread",
                              {"gens": big, "threads": len(big)}, {"one_thread": seq_file, "n_threads": badr[0]["file"] if badr else thr, "bad_rounds": len(badr), "rounds": rounds})
    ctx.stream("one thread vs N threads", trounds, 2, "12-20 types exported into one file sequentially and from as many barrier-released threads (real mutex, real scheduler); bytes must be identical in every round", [], {})
    nprobes = sum(len(p["probes"]) for p in programs)
    ctx.stream("independent builds with injected / natural dependency orders; exports in different orders", len(modes) * nprobes, nprobes,
               f"{n} corpus programs compiled {len(modes)} times (TS_RS_VERIF_DEP_ORDER = sorted / reversed / seed:k through the cfg hook, and plain rebuilds = fresh macro processes with "
               "fresh hash seeds); all public string-returning functions and all exported files compared byte for byte; universe exported in 5 different root orders",
               [{"modes": modes}], {"differences": fails, "dependency_list_order_varied": True in dep_orders})
    ctx.assumptions += ["the sources of nondeterminism are the inventory Gen.orderInventory (regenerated each run, compared with the allow-list in Props/C13.lean); "
                        "OS scheduling of test threads is covered through the mutex assumption of C05"]
    vlib.settle(ctx)
    return ctx.finish(proof=proof)


def replay(ctx, obj):
    print(json.dumps(obj, indent=1)[:3000])
    return 0
