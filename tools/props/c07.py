"""C07 — declarations of generic types are parametric and well-scoped."""
import json, os, random
import vlib, e2e, gen_corpus
from gen_corpus import P, N, OPT, VEC, PARAM
from props import corpus


def extra_programs(ctx):
    """generic items exercising every way a parameter can be used, each probed at >=3 instantiations"""
    rng = random.Random(ctx.seed * 17 + 3)
    progs = []
    ARGS = [P("u8"), P("String"), VEC(P("bool")), OPT(P("u64")), {"k": "map", "a": P("String"), "b": P("i32")}, {"k": "tuple", "ts": [P("u8"), P("char")]}]
    for i in range(12 if ctx.quick else 80):
        leaf = {"kind": "struct", "name": f"Lf{i}", "shape": "named", "attrs": {}, "generics": [], "fields": [{"name": "v", "ty": P("u16"), "attrs": {}}]}
        inner = {"kind": "struct", "name": f"In{i}", "shape": "named", "attrs": {}, "generics": [{"name": "X"}],
                 "fields": [{"name": "x", "ty": PARAM("X"), "attrs": {}}, {"name": "n", "ty": P("u8"), "attrs": {}}]}
        # parameter names in and out of alphabetical order (the order of declaration is what counts)
        ps = [["T"], ["A", "B"], ["T", "U", "V"], ["T", "E"], ["V", "K"], ["Z", "M", "A"]][i % 6]
        gens = [{"name": p} for p in ps]
        if i % 4 == 1:
            gens[-1]["default"] = rng.choice([P("u8"), N(leaf["name"]), VEC(P("String"))])
        if i % 4 == 3 and len(ps) > 1:      # a default that mentions an earlier parameter
            gens[-1]["default"] = rng.choice([VEC(PARAM(ps[0])), OPT(PARAM(ps[0])), N(inner["name"], PARAM(ps[0]))])
        fields = []
        uses = ["bare", "vec", "option", "map", "tuple", "other_generic", "boxed", "arr"]
        for j, p in enumerate(ps):
            u = uses[(i + j) % len(uses)]
            t = {"bare": PARAM(p), "vec": VEC(PARAM(p)), "option": OPT(PARAM(p)), "map": {"k": "map", "a": P("String"), "b": PARAM(p)},
                 "tuple": {"k": "tuple", "ts": [PARAM(p), P("u8")]}, "other_generic": N(inner["name"], PARAM(p)),
                 "boxed": {"k": "wrap", "w": "box", "t": PARAM(p)}, "arr": {"k": "arr", "t": PARAM(p), "n": 2}}[u]
            fields.append({"name": f"f{j}", "ty": t, "attrs": {}})
        fields.append({"name": "fixed", "ty": N(leaf["name"]), "attrs": {}})
        if i % 5 == 2:   # flattened / inlined use of ANOTHER generic instantiated at the parameter
            fields.append({"name": "fl", "ty": N(inner["name"], PARAM(ps[0])), "attrs": {"flatten": True}})
        if i % 5 == 3:
            fields.append({"name": "il", "ty": N(inner["name"], PARAM(ps[0])), "attrs": {"inline": True}})
        if i % 7 == 5:   # a parameter below a container, inlined
            fields.append({"name": "iv", "ty": VEC(PARAM(ps[0])), "attrs": {"inline": True}})
        kind = "struct" if i % 3 != 2 else "enum"
        if kind == "struct":
            g = {"kind": "struct", "name": f"Gen{i}", "shape": "named", "attrs": {}, "generics": gens, "fields": fields}
        else:
            g = {"kind": "enum", "name": f"Gen{i}", "attrs": {"tag": "t"} if i % 2 else {}, "generics": gens,
                 "variants": [{"name": "S", "shape": "named", "fields": fields, "attrs": {}}, {"name": "U", "shape": "unit", "fields": [], "attrs": {}}]}
        if i % 6 == 4 and len(ps) > 1:
            g["attrs"]["concrete"] = [{"name": ps[-1], "ty": P("i32")}]
        if i % 6 == 1 and len(ps) > 1:       # two parameters made concrete, in ONE list or in SEPARATE #[ts(..)] attributes
            g["attrs"]["concrete"] = [{"name": ps[0], "ty": P("i32")}, {"name": ps[-1], "ty": P("String")}]
            g["attrs"]["concrete_split"] = (i % 12 == 1)
        if kind == "struct" and i % 3 == 0 and not g["attrs"].get("concrete") and not any(f["attrs"] for f in fields):
            g["via_macro"] = True           # field types as `$t:ty` macro fragments
        # a CONST generic parameter before / between / after the type parameters (the declaration binds the type parameters only,
        # all of them, in order, wherever the const parameter stands); with a default only in last position and without defaulted types
        cargs = []
        if i % 4 in (0, 2) and not g.get("via_macro"):
            has_def = any(p.get("default") for p in gens)
            pos = [0, len(ps), 1 if len(ps) > 1 else 0, 0][i % 8 // 2] if not has_def else 0
            g["cgen"] = [{"pos": pos, "name": "NC", "ty": ["usize", "u8", "bool"][i % 3], "default": None}]
            cargs = [[pos, ["3", "7", "true"][i % 3]]]
            if pos == len(ps) and not has_def and i % 8 == 2:
                g["cgen"][0]["default"] = ["4", "9", "false"][i % 3]
        items = [leaf, inner, g]
        imap = {x["name"]: x for x in items}
        gen = gen_corpus.Gen(rng)
        probes = []
        for k in range(3):
            args = [rng.choice(ARGS + [N(leaf["name"]), N(inner["name"], P("bool"))]) for _ in ps]
            for cc in g["attrs"].get("concrete") or []:
                args[ps.index(cc["name"])] = cc["ty"]
            t = N(g["name"], *args)
            if cargs:
                t = dict(t, cargs=cargs)
            probes.append({"ty": t, "values": [gen.val(t, imap), gen.val(t, imap)]})
        probes.append({"ty": N(leaf["name"]), "values": []})
        probes.append({"ty": N(inner["name"], P("u8")), "values": []})
        progs.append({"items": items, "probes": probes})
    return progs


def run(ctx):
    proof = vlib.lean_check(ctx)
    c = corpus.get(ctx)
    progs = extra_programs(ctx)
    hb = vlib.build_hookbin(ctx)
    real2, _ = e2e.build_and_run(ctx, "c07", progs)
    if c.real is None or real2 is None:
        vlib.settle(ctx)
        return ctx.finish(proof=proof)
    model2 = e2e.run_model_programs(progs, c.chars, os.path.join(vlib.SCRATCH, "e2e-c07"))
    corpus.report_disagreements(ctx, c, ["name", "decl", "decl_concrete", "inline"], "C07 main corpus")
    nd = 0
    for prog, R, M in zip(progs, real2, model2 or []):
        for pr, r, m in zip(prog["probes"], R, M):
            for k in ("name", "decl", "decl_concrete", "inline"):
                if r.get(k) != m.get(k):
                    nd += 1
                    if nd == 1:
                        ctx.broken.append(f"compiled correspondence (generic stream): {json.dumps(pr['ty'])[:150]} {k}: impl={json.dumps(r.get(k))[:300]} model={json.dumps(m.get(k))[:300]}")
    # oracle over both corpora
    qs, meta = [], []
    groups = {}
    for src, P_, R_ in (("main", c.programs, c.real), ("generic", progs, real2)):
        for pi, (prog, R) in enumerate(zip(P_, R_)):
            imap = {it["name"]: it for it in prog["items"]}
            decls_by_item = {}
            for pr, r in zip(prog["probes"], R):
                if pr["ty"]["k"] == "named" and "ok" in r.get("decl", {}):
                    decls_by_item.setdefault(pr["ty"]["id"], r["decl"]["ok"])
            for qi, (pr, r) in enumerate(zip(prog["probes"], R)):
                t = pr["ty"]
                if t["k"] != "named" or not imap[t["id"]].get("generics"):
                    continue
                it = imap[t["id"]]
                case = {"items": prog["items"], "instantiation": t}
                if "ok" not in r.get("decl", {}):
                    e = next((e for e in ctx.known if e.get("match", {}).get("kind") == "decl_panics_inline_param"
                              and '"inline": true' in json.dumps(it)), None)
                    if e:
                        ctx.known_finding(e, f"{it['name']}::decl() panics")
                    else:
                        ctx.violation("decl() of a generic type panics", case, {"decl": r.get("decl")})
                    continue
                groups.setdefault((src, pi, t["id"]), []).append((r["decl"]["ok"], t))
                # binders: non-concretised type parameters, in order, with defaults
                concrete = {cc["name"] for cc in it.get("attrs", {}).get("concrete", []) or []}
                want = [g["name"] for g in it["generics"] if g["name"] not in concrete]
                if "ok" in r.get("decl_concrete", {}) and "ok" in r.get("name", {}):
                    qs.append({"op": "oracle_c07", "decl": r["decl"]["ok"], "decl_concrete": r["decl_concrete"]["ok"], "name": r["name"]["ok"],
                               "decls": [d for k, d in decls_by_item.items() if k != t["id"]]})
                    meta.append((case, want, it))
    res = vlib.run_model(qs) if qs else []
    fails = 0
    for q, (case, want, it), o in zip(qs, meta, res or []):
        problems = []
        if "ok" not in o:
            ctx.broken.append(f"oracle cannot read a generic declaration: {q['decl'][:200]}")
            continue
        if o["params"] != want:
            problems.append(f"declaration binds {o['params']} but the non-concretised type parameters are {want}")
        if not o["scoped"]:
            problems.append("the declaration mentions a name it neither binds nor imports")
        if not o["name_is_ident_applied"]:
            problems.append(f"name() = {q['name']} is not the identifier applied to one argument per bound parameter")
        if not o["instantiation_equals_concrete"]:
            problems.append("the generic declaration expanded at the arguments differs from decl_concrete()")
        for g in it["generics"]:
            if g.get("default") and g["name"] in want and " = " not in q["decl"].split("=")[0] + q["decl"].split(">")[0]:
                problems.append(f"default of {g['name']} missing")
        if problems:
            fails += 1
            if fails <= 5:
                ctx.violation("generic declaration not parametric / well-scoped: " + "; ".join(problems), case,
                              {"decl": q["decl"], "decl_concrete": q["decl_concrete"], "name": q["name"], "oracle": o})
    nondet = 0
    for key, lst in groups.items():
        texts = {d for d, _ in lst}
        if len(texts) > 1:
            nondet += 1
            ctx.violation("decl() differs between instantiations of one generic type", {"instantiations": [t for _, t in lst]}, {"decls": sorted(texts)})
    ctx.stream("generic items at several instantiations (compiled)", len(qs), len(groups),
               "main corpus generics + a dedicated stream: 1-3 type parameters used bare / in Vec / Option / map / tuple / Box / array / another generic, "
               "flattened and inlined generics, defaults, concrete(..); 3 instantiations each (primitives, containers, user types, other instantiations); "
               "oracle: decl() text identical across instantiations, binder list = non-concretised parameters in order, body well-scoped, name() = ident<args>, "
               "decl[args] normal-form-equal to decl_concrete(); non-trivial = generic items",
               [{"decl": qs[0]["decl"], "name": qs[0]["name"]}] if qs else [], {"oracle_failures": fails, "decl_text_differs": nondet, "model_disagreements_generic_stream": nd})
    ctx.assumptions += ["const arguments are held fixed (no const generics in the stream)", "TypeScript reading as in C01"]
    vlib.settle(ctx)
    return ctx.finish(proof=proof)


def replay(ctx, obj):
    print(json.dumps(obj, indent=1)[:3000])
    return 0
