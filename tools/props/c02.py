"""C02 — every inhabitant of the generated TypeScript type deserializes."""
import copy, json, os
import vlib, e2e
from props import corpus

CONSTRAINED = ["Ipv4Addr", "Ipv6Addr", "IpAddr", "SocketAddr", "SocketAddrV4", "NonZero"]   # string/number leaves with a restricted value set


def mutants(v, limit=12):
    """near-miss variations of a real JSON sample"""
    out = []
    def walk(x, path):
        if isinstance(x, dict):
            for k in list(x):
                out.append(("drop", path + [k]))
                walk(x[k], path + [k])
        elif isinstance(x, list):
            if x:
                out.append(("pop", path))
                out.append(("dup", path))
            for i, y in enumerate(x):
                walk(y, path + [i])
        else:
            out.append(("null", path))
    walk(v, [])
    res = []
    for kind, path in out[:limit * 3]:
        c = copy.deepcopy(v)
        try:
            parent = c
            for p in path[:-1]:
                parent = parent[p]
            if kind == "drop":
                del parent[path[-1]]
            elif kind == "null":
                if not path:
                    continue
                parent[path[-1]] = None
            else:
                tgt = c
                for p in path:
                    tgt = tgt[p]
                if kind == "pop":
                    tgt.pop()
                else:
                    tgt.append(copy.deepcopy(tgt[0]))
        except Exception:
            continue
        res.append(json.dumps(ones(c), ensure_ascii=False))
    return list(dict.fromkeys(res))[:limit]


def ones(x):
    """the property restricts numeric leaves to values every numeric Rust type can hold: a mutation may move a sample's number into an arm of
    another numeric type (TypeScript has one `number`), so every number of a mutant is replaced by 1"""
    if isinstance(x, bool) or x is None or isinstance(x, str):
        return x
    if isinstance(x, (int, float)):
        return 1
    if isinstance(x, list):
        return [ones(y) for y in x]
    return {k: ones(v) for k, v in x.items()}


def closure_text(prog, ty):
    """JSON text of the probe type and of every item reachable from it"""
    import re
    imap = {it["name"]: it for it in prog["items"]}
    seen, todo, text = set(), [json.dumps(ty)], ""
    while todo:
        t = todo.pop()
        text += t
        for n in re.findall(r'"id": "([^"]+)"', t):
            if n not in seen and n in imap:
                seen.add(n)
                todo.append(json.dumps(imap[n]))
    return text


def run(ctx):
    proof = vlib.lean_check(ctx)
    c = corpus.get(ctx)
    if c.real is None:
        vlib.settle(ctx)
        return ctx.finish(proof=proof)
    corpus.report_disagreements(ctx, c, ["name", "decl"], "C02")
    # 1. witnesses of the declared type (from the REAL declarations)
    wq, wmeta = [], []
    skipped = 0
    for pi, prog in enumerate(c.programs):
        decls = corpus.item_decls(c, pi)
        for qi, (pr, r) in enumerate(zip(prog["probes"], c.real[pi])):
            if not pr.get("de") or "ok" not in r.get("name", {}):
                continue
            text = closure_text(prog, pr["ty"])
            import re
            buffered = re.search(r'"(tag|content)": "', text) or '"untagged": true' in text or '"flatten": true' in text
            int_keys = re.search(r'"k": "map", "a": \{"k": "prim", "r": "[iu]', text)
            if buffered and int_keys:
                # serde buffers internally tagged / untagged / flattened data as `Content`, where map keys stay strings:
                # it cannot deserialize its own integer-keyed maps there (outside the fragment the property quantifies over)
                skipped += 1
                continue
            if any(x in text for x in CONSTRAINED) or '"type": "' in text:
                skipped += 1
                continue
            wq.append({"op": "witnesses", "decls": decls, "ty": r["name"]["ok"]})
            wmeta.append((pi, qi, decls, r))
    # the property is about the fragment on which serde round-trips its OWN output: probes whose real samples
    # do not deserialize (e.g. integer map keys or 128-bit numbers below `flatten` / an internal tag) are outside it
    rt_q = [[pi, qi, s] for (pi, qi, _, r) in wmeta for s in r.get("values", []) if s]
    rt = e2e.run_de(ctx, "main", rt_q) if rt_q else []
    bad_probe = {(q[0], q[1]) for q, d in zip(rt_q, rt) if not ("ok" in d and d["ok"] is not None)}
    keepi = [i for i, m in enumerate(wmeta) if (m[0], m[1]) not in bad_probe]
    not_roundtrip = len(wmeta) - len(keepi)
    wq = [wq[i] for i in keepi]
    wmeta = [wmeta[i] for i in keepi]
    wres = vlib.run_model(wq) if wq else []
    cand = []      # (pi, qi, json text, origin)
    for (pi, qi, decls, r), w in zip(wmeta, wres or []):
        for jt in w.get("ok", []):
            cand.append((pi, qi, jt, "enumerated", decls, r["name"]["ok"]))
        # Rust `char` is declared as TypeScript `string`: the property is about one-character strings there; a mutant can move a longer
        # string of the sample (a tag, a name) into an arm whose strings are chars, so mutants are only made where no `char` is involved
        has_char = '"r": "char"' in closure_text(c.programs[pi], c.programs[pi]["probes"][qi]["ty"])
        for s in ([] if has_char else [x for x in r.get("values", []) if x and not corpus.has_dup_keys(x)][:4]):
            for m in mutants(json.loads(s)):
                cand.append((pi, qi, m, "mutant", decls, r["name"]["ok"]))
    # keep only candidates that inhabit the TypeScript type
    mq = [{"op": "oracle_member", "decls": d, "ty": t, "json": jt} for (_, _, jt, _, d, t) in cand]
    mres = vlib.run_model(mq) if mq else []
    wit = [cnd for cnd, o in zip(cand, mres or []) if o.get("ok") is True and not corpus.has_dup_keys(cnd[2])]
    enumerated_rejected_by_oracle = sum(1 for cnd, o in zip(cand, mres or []) if cnd[3] == "enumerated" and o.get("ok") is not True)
    if enumerated_rejected_by_oracle:
        ctx.notes.append(f"{enumerated_rejected_by_oracle} enumerated candidates were not members by memberb and were discarded (e.g. colliding property names)")
    # 2. real Deserialize
    dres = e2e.run_de(ctx, "main", [[pi, qi, jt] for (pi, qi, jt, _, _, _) in wit]) if wit else []
    # 2b. the acceptance model of Deserialize (Model/De.lean; C02_members_are_accepted) against the real verdicts
    import re as _re
    groups = {}
    for k, w in enumerate(wit):
        groups.setdefault((w[0], w[1]), []).append(k)
    mlines, morder = [c.chars], []
    for (pi, qi), ks in groups.items():
        prog = c.programs[pi]
        text = closure_text(prog, prog["probes"][qi]["ty"])
        names = set(_re.findall(r'"id": "([^"]+)"', text))
        sub = [it for it in prog["items"] if it["name"] in names]
        mlines.append({"op": "de_acc", "items": sub, "ty": prog["probes"][qi]["ty"], "jsons": [wit[k][2] for k in ks]})
        morder.append((ks, '"flatten": true' in text or '"phantom"' in text or '"weak"' in text or '"as":' in text))
    mres = vlib.run_model(mlines) if len(mlines) > 1 else [None]
    n_model = n_frag = n_dis = 0
    if mres is None:
        ctx.broken.append("de_acc: model driver unavailable")
    else:
        for (ks, unsupported), o in zip(morder, mres[1:]):
            for k, rank, wf in zip(ks, o["ranks"], o["wf"]):
                d = dres[k]
                if "no_de" in d or unsupported or not wf:
                    continue
                real_ok = "ok" in d and d["ok"] is not None
                n_model += 1
                n_frag += 1 if o["frag"] else 0
                if (rank == 0) != real_ok:
                    n_dis += 1
                    if n_dis <= 3:
                        pi, qi, jt = wit[k][0], wit[k][1], wit[k][2]
                        ctx.broken.append(f"acceptance model of Deserialize (Model/De.lean) disagrees with serde_json::from_str: rank {rank} vs {'accepted' if real_ok else 'rejected: ' + str(d.get('err'))[:120]} "
                                          f"for {jt[:200]} at {json.dumps(c.programs[pi]['probes'][qi]['ty'])[:150]}")
                if o["frag"] and rank > 1:
                    ctx.broken.append(f"a member inside the fragment of C02_members_are_accepted gets rank {rank} from the model: {wit[k][2][:200]}")
    ctx.stream("acceptance model of Deserialize vs serde_json", n_model, n_frag,
               "every kept witness (a member of the real declared type) of every probe whose reachable items use only modelled features: `De.accTy` (rank 0 = accepted) against the real "
               "serde_json::from_str::<T>; non-trivial = witnesses of probes inside the fragment of C02_members_are_accepted (deFragB evaluated by the driver on the reachable items)",
               [], {"compared": n_model, "inside_theorem_fragment": n_frag, "disagreements": n_dis})
    # 3. re-serialisation inhabits the type again
    rq, ridx = [], []
    fails = 0
    for k, ((pi, qi, jt, origin, decls, ty), d) in enumerate(zip(wit, dres)):
        prog = c.programs[pi]
        case = {"items": prog["items"], "probe": prog["probes"][qi]["ty"], "witness": jt, "origin": origin}
        if "ok" in d and d["ok"] is not None:
            rq.append({"op": "oracle_member", "decls": decls, "ty": ty, "json": d["ok"]})
            ridx.append(case)
            continue
        if "no_de" in d:
            continue
        fails += 1
        if fails <= 6:
            ctx.violation("a JSON value that inhabits the generated TypeScript type is rejected by serde's Deserialize", case,
                          {"ts_type": ty, "declarations": decls, "serde_error": d.get("err", d)})
    rres = vlib.run_model(rq) if rq else []
    for case, o in zip(ridx, rres or []):
        if o.get("ok") is not True:
            fails += 1
            ctx.violation("re-serializing a deserialized witness does not inhabit the TypeScript type", case, {"oracle": o})
    ctx.stream("witnesses of the declared types vs real Deserialize", len(wit), len({(w[0], w[1]) for w in wit}),
               "for every Deserialize-able probe of the compiled corpus without value-restricted leaves: type-directed enumeration of JSON witnesses from the parsed REAL declaration "
               "(each union arm, optional-property subsets, array lengths 0..2, map sizes 0..1, leaves 1 / \"a\" / true / false / null) plus near-miss mutants (dropped keys, nulled "
               "leaves, popped/duplicated elements) of real serialized samples that still satisfy memberb; fed to the real serde_json::from_str::<T>; re-serialization judged again",
               [{"type": wit[0][5], "witness": wit[0][2]}] if wit else [],
               {"candidates": len(cand), "witnesses": len(wit), "enumerated": sum(1 for w in wit if w[3] == "enumerated"),
                "mutants": sum(1 for w in wit if w[3] == "mutant"), "rejected_by_serde": fails, "probes_skipped_constrained_leaves": skipped,
                "probes_outside_fragment_serde_does_not_roundtrip_its_own_output": not_roundtrip})
    ctx.assumptions += ["leaves restricted as the property says: numbers 1 (representable in every numeric leaf type), one-character strings; programs with IP/socket-address or NonZero leaves are skipped",
                        "TypeScript meaning as in C01"]
    vlib.settle(ctx)
    proof = dict(proof or {})
    proof["explanation"] = ("C02_members_are_accepted: in the fragment deFragB (every enum representation incl. untagged enums and single untagged variants, generic items and their instantiations) every JSON value with distinct keys inhabiting the generated type gets rank 0 or 1 (leaf only) from the "
                            "acceptance model of serde's Deserialize (Model/De.lean), which is compared with the real serde_json::from_str on every kept witness of the run; outside the fragment "
                            "(flatten) the witnesses are fed to the real Deserialize (C02_kept_candidates_are_members makes a rejection a counter-example)")
    return ctx.finish(proof=proof)


def replay(ctx, obj):
    print(json.dumps(obj, indent=1)[:3000])
    return 0
