"""Shared: the compiled universe of types driven through the public entry points (C06, C11, C17, C03, C13)."""
import json, os, shutil
import vlib


def build(ctx, features=()):
    crate = os.path.join(vlib.VERIF, "harness", "universe")
    tgt = os.path.join(vlib.BUILD, "universe" + ("-" + "_".join(features) if features else ""))
    shutil.copy(os.path.join(vlib.REPO, "Cargo.lock"), os.path.join(crate, "Cargo.lock"))
    env = vlib.cargo_env()
    env["CARGO_TARGET_DIR"] = tgt
    cmd = ["cargo", "build", "--offline", "--quiet"]
    rc, out = vlib.sh(cmd, cwd=crate, env=env, timeout=3000)
    if rc != 0:
        ctx.log("universe build failed:\n" + out[-3000:])
        ctx.broken.append("universe harness does not build against /repo: " + out.strip().split("\n")[-1][:300])
        return None
    return os.path.join(tgt, "debug", "universe")


def describe(binary, root, env):
    c = {"op": "describe", "root": root}
    if env is not None:
        c["env"] = env
    r = vlib.run_real(binary, [c])[0]
    return r["ok"], r["default_out_dir"]


def canon(x):
    if not isinstance(x, dict) or "tree" not in x:
        return x
    return {"steps": x["steps"], "tree": sorted(json.dumps(t, sort_keys=True) for t in x["tree"]),
            "snaps": [sorted(json.dumps(t, sort_keys=True) for t in sn) for sn in x.get("snaps", [])],
            "registry": sorted(json.dumps([r[0], sorted(r[1])]) for r in x["registry"]), "poisoned": x["poisoned"]}


def tree_of(res):
    return {rel: node for rel, node in res["tree"]}


def reach(types, i):
    """closure under visit_dependencies (exportable only), as the property defines it"""
    seen, stack = [], [i]
    while stack:
        t = stack.pop()
        if t in seen or types[t]["output_path"] is None:
            continue
        seen.append(t)
        stack.extend(d for d in types[t]["deps"] if isinstance(d, int))
    return seen


def run_both(ctx, binary, types, hists, stream):
    """run histories on implementation and model; returns (real, model, disagreements)"""
    real = vlib.run_real(binary, hists)
    model = vlib.run_model([{"op": "set_universe", "types": types}] + hists)
    model = model[1:] if model else None
    dis = vlib.compare(ctx, stream, hists, real, model, canon)
    return real, model, dis
