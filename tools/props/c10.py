"""C10 — serde and ts attribute spellings are equivalent; ts wins; unknown serde is inert."""
import itertools, json, os, random
import vlib

I = lambda s: {"i": s}
PU = lambda c: {"p": c}
S = lambda s: {"s": s}
G = lambda *t: {"g": list(t)}

# the SPECIFICATION of "supported serde attribute" (position x key), from the crate documentation — not derived from the code
SPEC = {"struct": ["rename", "rename_all", "tag"], "enum": ["rename", "rename_all", "rename_all_fields", "tag", "content", "untagged"],
        "variant": ["rename", "rename_all", "skip", "untagged"], "field": ["rename", "skip", "flatten"]}
VALUES = {"rename": [S("Renamed"), S("x_y")], "rename_all": [S("camelCase"), S("SCREAMING_SNAKE_CASE")], "rename_all_fields": [S("kebab-case"), S("PascalCase")],
          "tag": [S("t"), S("kind")], "content": [S("c"), S("data")], "untagged": None, "skip": None, "flatten": None}
UNSUPPORTED = {   # serde entries ts-rs does not support: (tokens, class)
    "skip_serializing_if": ([I("skip_serializing_if"), PU("="), S("Option::is_none")], "kv"),
    "alias": ([I("alias"), PU("="), S("z")], "kv"), "getter": ([I("getter"), PU("="), S("g")], "kv"),
    "serialize_with": ([I("serialize_with"), PU("="), S("f")], "kv"), "expecting": ([I("expecting"), PU("="), S("e")], "kv"),
    "other": ([I("other")], "bare"), "transparent": ([I("transparent")], "bare"), "borrow": ([I("borrow")], "bare"),
    "deny_unknown_fields": ([I("deny_unknown_fields")], "bare"),
    "rename(ser)": ([I("rename"), G(I("serialize"), PU("="), S("a"), PU(","), I("deserialize"), PU("="), S("b"))], "known_key_other_form"),
    "bound(ser)": ([I("bound"), G(I("serialize"), PU("="), S("T: Clone"))], "known_key_other_form"),
    "default=path": ([I("default"), PU("="), S("path")], "default_path"),
    "default": ([I("default")], "default_bare"),
    "crate": ([I("crate"), PU("="), S("serde")], "kv"),          # a keyword as key
    # long values in other scripts (whatever is done with the text of a skipped attribute — printing it in a warning, shortening it —
    # must cope with every byte offset falling inside a character): 2-, 3- and 4-byte characters at every alignment
    "expecting(long2a)": ([I("expecting"), PU("="), S("структура с полями имя и возраст" * 4)], "kv"),
    "expecting(long2b)": ([I("expecting"), PU("="), S("x" + "ж" * 120)], "kv"),
    "alias(long3a)": ([I("alias"), PU("="), S("日本語の別名" * 12)], "kv"),
    "alias(long3b)": ([I("alias"), PU("="), S("a" + "語" * 80)], "kv"),
    "alias(long3c)": ([I("alias"), PU("="), S("ab" + "語" * 80)], "kv"),
    "getter(long4)": ([I("getter"), PU("="), S("𝔘𝔫𝔦𝔠𝔬𝔡𝔢" * 10 + "z" + "𝔘" * 30 + "zz" + "𝔘" * 30 + "zzz" + "𝔘" * 30)], "kv"),
}
# keys only `#[ts(..)]` knows, per position: their presence must not change how the serde spelling of the other keys is read
TS_ONLY = {"struct": [[I("type"), PU("="), S("string")], [I("export")]], "enum": [[I("as"), PU("="), S("Other")], [I("export_to"), PU("="), S("x/")]],
           "variant": [[I("type"), PU("="), S("string")], [I("inline")]], "field": [[I("type"), PU("="), S("string")], [I("as"), PU("="), S("Other")], [I("inline")], [I("optional")]]}
ITEM = {"struct": "{A} struct S {{ a: i32 }}", "enum": "{A} enum E {{ V {{ x_y: i32 }}, W }}", "variant": "enum E {{ {A} V {{ x_y: i32 }}, W }}",
        "field": "struct S {{ {A} a: Option<i32>, b: u8 }}"}


def entry(key, vi=0):
    v = VALUES[key]
    return [I(key)] if v is None else [I(key), PU("="), v[vi % len(v)]]


def join(entries):
    out = []
    for i, e in enumerate(entries):
        if i:
            out.append(PU(","))
        out += e
    return out


def tok_src(t):
    if "i" in t: return t["i"]
    if "p" in t: return t["p"]
    if "s" in t: return json.dumps(t["s"], ensure_ascii=False)       # a Rust string literal: non-ASCII characters as themselves
    if "o" in t: return t["o"]
    return "(" + " ".join(tok_src(x) for x in t["g"]) + ")"


def attr_src(kind, toks):
    return f"#[{kind}(" + " ".join(tok_src(t) for t in toks) + ")]"


def item_src(pos, ts_lists, serde_lists, ts_first=False):
    sd, ts = [attr_src("serde", l) for l in serde_lists], [attr_src("ts", l) for l in ts_lists]
    A = " ".join(ts + sd if ts_first else sd + ts)       # the order in which the two kinds of list are written must not matter
    return ITEM[pos].format(A=A)


def cases(ctx):
    rng = random.Random(ctx.seed * 53 + 1)
    out = []   # (kind, pos, ts_lists, serde_lists, reference (ts_lists, serde_lists) or None)
    for pos, keys in SPEC.items():
        ok_combo = lambda ks: not ("untagged" in ks and ("tag" in ks or "content" in ks)) and not ("content" in ks and "tag" not in ks) and not ("flatten" in ks and "rename" in ks)
        subsets = [list(c) for n in (1, 2, 3) for c in itertools.combinations(keys, n) if ok_combo(c)]
        for ks in subsets:
            es = [entry(k, i) for i, k in enumerate(ks)]
            # spelling: one serde list vs one ts list
            out.append(("spelling", pos, [], [join(es)], ([join(es)], [])))
            # split over several lists
            out.append(("split", pos, [], [e for e in es], ([], [join(es)])))
            # both spellings, different values: ts wins
            es2 = [entry(k, i + 1) for i, k in enumerate(ks)]
            out.append(("ts_wins", pos, [join(es)], [join(es2)], ([join(es)], [])))
            out.append(("ts_wins:ts_first", pos, [join(es)], [join(es2)], ([join(es)], [])))      # the same with the ts list written above the serde list
            # a trailing comma (what rustfmt writes for multi-line attributes) must not matter, in either spelling
            out.append(("trailing_comma:serde", pos, [], [join(es) + [PU(",")]], ([], [join(es)])))
            out.append(("trailing_comma:ts", pos, [join(es) + [PU(",")]], [], ([join(es)], [])))
            # a list that cannot be parsed as a whole (here: made unparseable by an integer where a key is expected) next to a good list
            out.append(("bad_list_next_to_good", pos, [], [[{"o": "5"}], join(es)], ([], [join(es)])))
            # a ts-only key on the same item: the serde spelling of the other keys must still be read like the ts spelling
            for tso in TS_ONLY[pos]:
                out.append((f"next_to_ts_only:{tso[0]['i']}", pos, [tso], [join(es)], ([tso, join(es)], [])))
            # unsupported entries at every position of the list
            for uname, (utoks, ucls) in UNSUPPORTED.items():
                if uname == "deny_unknown_fields" and pos != "struct":
                    pass
                for at in range(len(es) + 1):
                    mixed = es[:at] + [utoks] + es[at:]
                    out.append((f"inert:{ucls}:{uname}@{at}/{len(es)}", pos, [], [join(mixed)], ([], [join(es)])))
                    if rng.random() < 0.15:
                        out.append((f"inert_own_list:{ucls}:{uname}", pos, [], [utoks, join(es)], ([], [join(es)])))
    # ts-only errors: unknown ts key must be an error (not inert)
    for pos in SPEC:
        out.append(("ts_unknown_is_error", pos, [[I("bogus")]], [], None))
    return out


def classify_known(ctx, kind):
    for e in ctx.known:
        m = e.get("match", {})
        if m.get("kind") and m["kind"] in kind:
            return e
    return None


def run(ctx):
    proof = vlib.lean_check(ctx)
    cs = cases(ctx)
    total = fails = 0
    known_hit = {}
    # flatten (case, reference) into driver lines
    lines, idx = [], []
    for k, (kind, pos, ts, sd, ref) in enumerate(cs):
        lines.append(["attrs", pos, item_src(pos, ts, sd, ts_first=kind.endswith(":ts_first"))])
        idx.append((k, "case"))
        if ref is not None:
            lines.append(["attrs", pos, item_src(pos, ref[0], ref[1])])
            idx.append((k, "ref"))
    for feats, compat in ((("serde-compat",), True), (("serde-compat", "no-serde-warnings"), True), ((), False)):
        real = vlib.run_macro(ctx, lines, features=feats, tag="c10")
        if real is None:
            continue
        # model correspondence
        mlines = []
        for k, (kind, pos, ts, sd, ref) in enumerate(cs):
            mlines.append({"op": "attrs", "pos": pos, "ts": ts, "serde": sd, "serde_compat": compat})
            if ref is not None:
                mlines.append({"op": "attrs", "pos": pos, "ts": ref[0], "serde": ref[1], "serde_compat": compat})
        model = vlib.run_model(mlines)
        canon = lambda x: ({"err": True} if "err" in x else x)
        vlib.compare(ctx, f"from_attrs dumps (features={list(feats)})", mlines, real, model, canon)
        # relational oracle on the implementation
        res = {}
        for (k, role), r in zip(idx, real):
            res[(k, role)] = r
        for k, (kind, pos, ts, sd, ref) in enumerate(cs):
            total += 1
            r = res[(k, "case")]
            case = {"kind": kind, "position": pos, "item": item_src(pos, ts, sd, ts_first=kind.endswith(":ts_first")), "features": list(feats)}
            if kind == "ts_unknown_is_error":
                if "err" not in r:
                    fails += 1
                    ctx.violation("an unknown `ts` key is not reported as an error", case, {"result": r})
                continue
            rr = res[(k, "ref")]
            case["reference_item"] = item_src(pos, ref[0], ref[1])
            if not compat:
                # serde compatibility off: serde attributes have no effect at all
                want = {"ok": ""} if not ts else None
                ok = (r == {"ok": ""}) if not ts else True
                if kind == "ts_wins":
                    ok = r == rr
                if not ok:
                    fails += 1
                    ctx.violation("with serde-compat off a serde attribute still has an effect", case, {"result": r})
                continue
            if r != rr:
                e = classify_known(ctx, kind)
                if e:
                    known_hit.setdefault(e["id"], (e, case, r, rr))
                    continue
                fails += 1
                if fails <= 6:
                    what = {"spelling": "the serde spelling and the ts spelling of the same attributes are parsed differently",
                            "split": "splitting attributes over several lists changes the result",
                            "ts_wins": "with both spellings present the ts value does not win"}.get(kind.split(":")[0],
                            "an unsupported serde entry changes the effect of the supported attributes next to it")
                    ctx.violation(what, case, {"result": r, "reference": rr})
    for eid, (e, case, r, rr) in known_hit.items():
        ctx.known_finding(e, f"{case['item']} parsed as {json.dumps(r)} but {case['reference_item']} as {json.dumps(rr)}")
    ctx.stream("attribute lists at the four positions (in-process from_attrs)", total, len(cs),
               "every subset (<=3) of the supported keys per position x {serde spelling vs ts spelling, split over lists, both spellings with different values} "
               "x 13 unsupported serde entries (key=value, bare, known key in another form, default/default=path) inserted at every index of the list and as own list; "
               "3 feature builds (serde-compat, +no-serde-warnings, no serde-compat); model vs implementation on every dump; relational oracle on the implementation",
               [{"item": item_src(*cs[5][1:4])}], {"failures": fails, "known": {k: v[1]["kind"] for k, v in known_hit.items()}})
    ctx.assumptions += ["attribute VALUES are string literals / identifiers / parenthesised groups (arbitrary syn::Expr / syn::Type parsing is not modelled)",
                        "the specification of 'supported serde attribute' is the hand-written list SPEC in tools/props/c10.py and Props/C10.lean"]
    vlib.settle(ctx)
    return ctx.finish(proof=proof)


def replay(ctx, obj):
    c = obj["case"]
    r = vlib.run_macro(ctx, [["attrs", c["position"], c["item"]], ["attrs", c["position"], c.get("reference_item", c["item"])]], features=tuple(c.get("features", ["serde-compat"])), tag="c10r")
    print(json.dumps(r))
    return 0 if r and r[0] == r[1] else 1
