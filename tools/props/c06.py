"""C06 — export results depend only on what was exported, not how or in what order."""
import json, os
import vlib
from props import uni

EXPORTABLE = [0, 1, 2, 3, 4, 5, 6, 7, 8, 9, 10, 11, 12, 13, 17, 18, 19, 20, 21, 22, 23, 24, 39, 40, 41, 42, 43, 44, 45, 46, 47, 48, 49, 50, 51, 52, 57, 58, 59, 60]
ENVS = [None, "rel/out", "$ROOT/abs/out", "./bindings/../bindings/.", "$ROOT/abs/x/../out"]


def spellings(dod, root=""):
    """spellings of the default export directory (resolved against cwd = $ROOT)"""
    import posixpath
    if root and dod.startswith(root):
        dod = "$ROOT" + dod[len(root):]
    if dod.startswith("$ROOT"):
        norm = "$ROOT" + posixpath.normpath("/" + dod[5:].lstrip("/")).rstrip("/")
        rel = norm[6:]
    else:
        rel = posixpath.normpath(dod)
        norm = "$ROOT/" + rel
    last = rel.split("/")[-1]
    out = [dod, norm, rel, "./" + rel, rel + "/", rel + "/../" + last, "./x/.././" + rel + "/.",
           # absolute spellings with dot segments (an absolute path is normalised like a relative one)
           norm + "/../" + last, norm + "/zz/..", norm + "/./"]
    return list(dict.fromkeys(out))


def variants(ctx, types, roots, dod, root):
    rng = ctx.rng
    S = []
    for r in roots:
        for t in uni.reach(types, r):
            if t not in S:
                S.append(t)
    sp = spellings(dod, root)
    vs = []
    vs.append(("export_all in order", [{"k": "export_all", "t": r} for r in roots]))
    vs.append(("export_all reversed", [{"k": "export_all", "t": r} for r in reversed(roots)]))
    sh = S[:]
    rng.shuffle(sh)
    vs.append(("export of every type, shuffled", [{"k": "export", "t": t} for t in sh]))
    vs.append(("export then export_all", [{"k": "export", "t": t} for t in sh[: max(1, len(sh) // 2)]] + [{"k": "export_all", "t": r} for r in roots]))
    vs.append(("export_all then export", [{"k": "export_all", "t": r} for r in roots] + [{"k": "export", "t": t} for t in sh[: max(1, len(sh) // 2)]]))
    for k, s in enumerate(sp):
        vs.append((f"export_all_to spelling {s}", [{"k": "export_all_to", "t": r, "dir": s} for r in (roots if k % 2 == 0 else reversed(roots))]))
    vs.append(("mixed entry points", [{"k": ["export_all", "export_all_to", "export"][j % 3], "t": t, "dir": sp[j % len(sp)]} for j, t in enumerate(sh)]
               + [{"k": "export_all_to", "t": r, "dir": sp[-1]} for r in roots]))
    vs.append(("repeated", [{"k": "export_all", "t": r} for r in roots] * 2 + [{"k": "export", "t": t} for t in sh]))
    # a previous run (another process) that exported MORE into the same files: types outside S that share a file with a type of S
    paths = {types[t]["output_path"] for t in S}
    extra = [t for t in EXPORTABLE if t not in S and types[t]["output_path"] in paths]
    if extra:
        vs.append(("after a previous run that exported a superset into the same files",
                   [{"k": "export", "t": t} for t in S + extra] + [{"k": "reset"}] + [{"k": "export_all", "t": r} for r in roots]))
    return S, vs


def run(ctx):
    proof = vlib.lean_check(ctx)
    binary = uni.build(ctx)
    if binary is None:
        vlib.settle(ctx)
        return ctx.finish(proof=proof)
    root = os.path.join(vlib.SCRATCH, "u6")
    total = groups = 0
    rootsets = [[7], [2], [4, 5], [23, 3], [10, 11], [21, 22], [17, 24], [6, 9, 5], [18, 19, 20], [4, 23, 5, 3], [39, 3], [40, 5], [41, 45], [45, 42, 43], [49], [47, 46], [50, 51], [52], [57, 3], [60], [57, 39]]
    # one type of every shared file alone (so that the other types of that file are "outside the export set")
    types0, _ = uni.describe(binary, root, None)
    byp = {}
    for t in EXPORTABLE:
        byp.setdefault(types0[t]["output_path"], []).append(t)
    for pth, ts in byp.items():
        if len(ts) >= 2 and [ts[0]] not in rootsets:
            rootsets.append([ts[0]])
    if not ctx.quick:
        for _ in range(30):
            rootsets.append(ctx.rng.sample(EXPORTABLE, ctx.rng.randint(1, 4)))
    known_hit = {}
    for env in ENVS:
        types, dod = uni.describe(binary, root, env)
        for roots in rootsets:
            S, vs = variants(ctx, types, roots, dod, root)
            hists = []
            for vi, (vname, steps) in enumerate(vs):
                pre = []
                if vi % 3 == 1:      # stale files at (some) target locations and an unrelated file
                    pre = [{"k": "write", "p": __import__("posixpath").normpath(dod.rstrip("/") + "/" + types[t]["output_path"]) if not dod.startswith("$ROOT") else "$ROOT" + __import__("posixpath").normpath("/" + dod[5:].strip("/") + "/" + types[t]["output_path"]),
                            "s": "// stale\n\nexport type Stale = 1;\n" if j % 2 else "garbage without blank line"} for j, t in enumerate(S)]
                elif vi % 3 == 2:    # a previous run (another process): same files already there
                    pre = [{"k": "export_all", "t": r} for r in roots] + [{"k": "reset"}]
                h = {"op": "uhist", "root": root, "steps": pre + steps}
                if env is not None:
                    h["env"] = env
                hists.append(h)
            real, model, dis = uni.run_both(ctx, binary, types, hists, f"entry-point histories env={env} roots={roots}")
            total += len(hists)
            groups += 1
            # oracle: all variants (same export set) end in the same tree, every step Ok
            trees = [uni.tree_of(r) for r in real]
            ref = trees[0]
            for (vname, steps), h, r, t in zip(vs, hists, real, trees):
                bad_step = [s for s in r["steps"] if s != "ok"]
                if t != ref or bad_step:
                    diff = sorted(set(k for k in set(t) | set(ref) if t.get(k) != ref.get(k)))
                    case = {"env": env, "roots": [types[x]["name"] for x in roots], "variant": vname, "steps": h["steps"],
                            "reference_variant": vs[0][0], "reference_steps": hists[0]["steps"]}
                    e = match_known(ctx, case, diff, env)
                    if e:
                        known_hit.setdefault(e["id"], (e, case, diff))
                        continue
                    ctx.violation("two histories exporting the same set of types end in different directory contents"
                                  if not bad_step else "an export step of a fault-free history failed",
                                  case, {"differing_paths": diff[:10], "step_results": r["steps"],
                                         "this": {k: t.get(k) for k in diff[:3]}, "reference": {k: ref.get(k) for k in diff[:3]}})
                    break
    for eid, (e, case, diff) in known_hit.items():
        ctx.known_finding(e, f"e.g. variant `{case['variant']}` vs `{case['reference_variant']}` for roots {case['roots']} (env {case['env']}): differing {diff[:3]}")
    ctx.stream("entry-point histories (export / export_all / export_all_to x spellings x env x initial contents)", total, groups,
               "for each of %d root sets x 4 TS_RS_EXPORT_DIR settings: ~12 histories realising the SAME export set through different entry points, orders, "
               "directory spellings and initial contents (empty / stale files / previous run); model vs implementation on every history; oracle: all final trees of a group identical; "
               "non-trivial = groups" % len(rootsets), [{"roots": rootsets[0]}], {})
    ctx.assumptions += ["types are summarised for the model by (ident, output_path, export_to_string text, visit_dependencies list) read from the compiled universe; "
                        "the export machinery on top of them is modelled in Model/Export.lean",
                        "output paths stay inside the scratch root; no symlinks; single process"]
    vlib.settle(ctx)
    return ctx.finish(proof=proof)


def match_known(ctx, case, diff, env):
    for e in ctx.known:
        m = e.get("match", {})
        if m.get("kind") == "export_vs_export_all_key" and any(s["k"] == "export" for s in case["steps"]) and not (env or "").startswith("$ROOT"):
            return e
    return None


def replay(ctx, obj):
    binary = uni.build(ctx)
    c = obj["case"]
    root = os.path.join(vlib.SCRATCH, "u6r")
    hs = []
    for steps in (c["steps"], c["reference_steps"]):
        h = {"op": "uhist", "root": root, "steps": steps}
        if c.get("env") is not None:
            h["env"] = c["env"]
        hs.append(h)
    real = vlib.run_real(binary, hs)
    a, b = uni.tree_of(real[0]), uni.tree_of(real[1])
    diff = sorted(k for k in set(a) | set(b) if a.get(k) != b.get(k))
    print(json.dumps({"differing_paths": diff, "steps": real[0]["steps"]}, indent=1))
    return 1 if diff else 0
