"""C05 — several types in one file: order-independent, idempotent, lossless merge."""
import posixpath, itertools, json, os
import vlib

NOTE = None
DOMAIN = {"in": 0, "out": 0, "real_in": 0, "real_out": 0}


def gen_text(name, imports, docs, body):
    """what export_to_string produces for one type"""
    imp = "".join('import type { %s } from "%s";\n' % (", ".join(sorted(set(ns))), p) for p, ns in sorted(imports.items()))
    return NOTE + imp + "\n" + docs + "export type " + name + " = " + body + "\n"


SHAPES = {
    "oneline": lambda n: ("", "{ a: number, };"),
    "multiline": lambda n: ("", "{ \n/**\n * field doc\n */\na: string, b: Array<%s>, };" % n),
    "typedoc": lambda n: ("/**\n * Docs of %s\n */\n" % n, "{ x: boolean, };"),
    "blockdoc": lambda n: ("/** one\n two */\n", "\"a\" | \"b\";"),
    "unicode": lambda n: ("/**\n * ünï — ✓\n */\n", "{ \"k-é\": string, };"),
    "union": lambda n: ("", "{ \"t\": \"A\" } | { \"t\": \"B\", v: number };"),
    "doc_mentions_decl": lambda n: ("/**\n * see export type Other = number;\n */\n", "number;"),
    # the documentation of the TYPE (in front of its own `export type`) quotes the declaration of ANOTHER type of the same file
    "doc_mentions_member": lambda n: ("/**\n * compare with `export type @OTHER@ = ...` below\n */\n", "{ m: number, };"),
}
# outside the proven domain (WFBlock): listed defect classes
BAD_SHAPES = {
    "blankline_in_blockdoc": lambda n: ("/** first\n\n second */\n", "number;"),
    "fielddoc_mentions_decl": lambda n: ("", "{ \n/**\n * like export type Zzz = 1\n */\na: number, };"),
}
NAMESETS = [["User", "UserProfile", "UserProfileSettings"], ["B", "A", "C", "a"], ["Zeta", "alpha", "Beta", "_x", "$y"],
            ["T1", "T10", "T2"], ["É", "E", "e"]]
IMPORTSETS = [{}, {"./Dep": ["Dep"]}, {"./Dep": ["Dep", "Other"], "../x/Y": ["Y"]}, {"./sub/Z": ["Z"]}, {"./Dep": ["Other"]},
              {"./a-b": ["$q", "_r"]}, {"./from": ["from"], "./a from b": ["As", "from"]}, {"../with space/x": ["imports", "type"]}]


def make_sets(ctx, bad=False):
    sets = []
    shapes = list(SHAPES)
    rng = ctx.rng
    for names in NAMESETS:
        for rep in range(2 if ctx.quick else 6):
            gens = []
            for i, n in enumerate(names):
                sh = shapes[(i + rep * 3 + len(n)) % len(shapes)]
                if bad and i == rep % len(names):
                    sh = list(BAD_SHAPES)[rep % len(BAD_SHAPES)]
                docs, body = (BAD_SHAPES.get(sh) or SHAPES[sh])(n)
                docs = docs.replace("@OTHER@", names[(i + 1) % len(names)])
                imports = IMPORTSETS[(i + rep + len(n)) % len(IMPORTSETS)]
                gens.append({"name": n, "shape": sh, "text": gen_text(n, imports, docs, body)})
            sets.append(gens)
    return sets


def histories(ctx, gens, root, stale):
    """all permutations (and therefore all prefixes, checked through intermediate re-exports) of a set"""
    n = len(gens)
    perms = list(itertools.permutations(range(n)))
    if len(perms) > (24 if ctx.quick else 120):
        ctx.rng.shuffle(perms)
        perms = perms[: (24 if ctx.quick else 120)]
    out = []
    for pi, perm in enumerate(perms):
        steps = []
        if stale:
            steps.append({"k": "write", "p": "$ROOT/out/shared.ts", "s": "STALE CONTENT\n\nexport type Old = never;\n" * 200})     # much longer than anything written later: the first export must truncate
        else:
            steps.append({"k": "mkdir", "p": "$ROOT/out"})
        for j, i in enumerate(perm):
            g = gens[i]
            steps.append({"k": "eam", "p": "$ROOT/out/shared.ts", "name": g["name"], "text": g["text"]})
            if (j + pi) % 2 == 0:   # idempotence: exporting a type that is already in the file
                g2 = gens[perm[(j * 7 + pi) % (j + 1)]]
                steps.append({"k": "eam", "p": "$ROOT/out/shared.ts", "name": g2["name"], "text": g2["text"]})
        out.append({"op": "hist", "root": root, "steps": steps, "_perm": list(perm)})
    return out


def canon(x):
    """canonicalise a hist result: sort tree and registry"""
    if not isinstance(x, dict) or "tree" not in x:
        return x
    return {"steps": x["steps"], "tree": sorted(json.dumps(t, sort_keys=True) for t in x["tree"]),
            "registry": sorted(json.dumps([r[0], sorted(r[1])]) for r in x["registry"]), "poisoned": x["poisoned"]}


def final_file(res):
    for rel, node in res["tree"]:
        if rel == "out/shared.ts":
            return node.get("file")
    return None


def public_entry_points(ctx):
    """the shared file of the compiled universe, written through `export` / `export_all` / `export_all_to` in every order, with the default
    directory relative, absolute, and the file spelled with a `..` detour in one `export_to`: every declaration exactly once in the end"""
    from props import uni, tsparse
    binary = uni.build(ctx)
    if binary is None:
        return
    root = os.path.join(vlib.SCRATCH, "c05", "u")
    total = orders = 0
    for env in (None, "$ROOT/abs/out", "rel/out/../out", "$ROOT/abs/x/../out"):
        types, dod = uni.describe(binary, root, env)
        if env is None:
            # the REAL generated texts (export_to_string of every exportable type of the universe) lie in the theorems' domain
            real_texts = [(t["ident"], t["text"]["ok"]) for t in types if t["output_path"] and isinstance(t.get("text"), dict) and "ok" in t["text"]]
            dom = vlib.run_model([{"op": "gen_ok", "name": n, "text": x} for n, x in real_texts]) or []
            for (n, x), d in zip(real_texts, dom):
                inside = d.get("parts") and d.get("ok") and d.get("same_text") and (d.get("decl_name") or "").split("<")[0] == n
                DOMAIN["real_in" if inside else "real_out"] += 1
                if not inside:
                    ctx.broken.append(f"export_to_string of {n} is outside the domain of C05_history_canonical (GenOK): {json.dumps(d)} {json.dumps(x)[:300]}")
        sharers = [i for i, t in enumerate(types) if t["output_path"] and posixpath.normpath(t["output_path"]) == "shared.ts"]
        names = [types[i]["name"] for i in sharers]
        hists, metas = [], []
        for _ in range(6 if ctx.quick else 40):
            order = ctx.rng.sample(sharers, len(sharers))
            ks = [ctx.rng.choice(["export", "export_all", "export_all_to"]) for _ in order]
            steps = [{"k": k, "t": t, **({"dir": dod} if k == "export_all_to" else {})} for k, t in zip(ks, order)]
            h = {"op": "uhist", "root": root, "steps": steps}
            if env is not None:
                h["env"] = env
            hists.append(h)
            metas.append([f"{k}({types[t]['name']})" for k, t in zip(ks, order)])
        real, model, dis = uni.run_both(ctx, binary, types, hists, f"shared file through the public entry points env={env}")
        total += len(hists)
        orders += len({tuple(m) for m in metas})
        for h, m, r in zip(hists, metas, real):
            shared = [node.get("file") for rel, node in r["tree"] if rel.endswith("/shared.ts") or rel == "shared.ts"]
            probs = []
            if any(s != "ok" for s in r["steps"]):
                probs.append(f"steps {r['steps']}")
            if len(shared) != 1 or shared[0] is None:
                probs.append(f"{len(shared)} files named shared.ts")
            else:
                decl = [d[0] for d in tsparse.parse_file(shared[0])["decls"]]
                if sorted(decl) != sorted(names):
                    probs.append(f"shared.ts declares {decl}, exported {sorted(names)}")
            if probs:
                ctx.violation("a declaration exported into a shared file is lost or duplicated: " + "; ".join(probs),
                              {"universe_history": h, "order": m, "env": env}, {"shared.ts": shared[:1], "step_results": r["steps"]})
                break
    ctx.stream("shared file through the public entry points", total, orders,
               "the five types of the compiled universe that share `shared.ts` (one spelled `dots/../shared.ts`) exported in random orders through export / export_all / "
               "export_all_to, default directory unset / absolute / relative with `..`; oracle: exactly one shared.ts holding every declaration once; model = implementation; "
               "plus: every real export_to_string text of the universe evaluated against the domain predicate of C05_history_canonical (GenOK, via the driver)",
               [], {"theorem_domain": dict(DOMAIN)})


def run(ctx):
    global NOTE
    proof = vlib.lean_check(ctx)
    binary = vlib.build_hookbin(ctx)
    if binary is None:
        vlib.settle(ctx)
        return ctx.finish(proof=proof)
    NOTE = vlib.run_real(binary, [{"op": "consts"}])[0]["ok"]["NOTE"]
    root = os.path.join(vlib.SCRATCH, "c05", "h")
    total = nontriv = 0
    for bad in (False, True):
        sets = make_sets(ctx, bad)
        for si, gens in enumerate(sets):
            hs = histories(ctx, gens, root, stale=(si % 2 == 1))
            cases = [{k: v for k, v in h.items() if k != "_perm"} for h in hs]
            # is every text of the set inside the domain of the history theorems (GenOK)? (a set built with a listed defect shape has
            # exactly that text outside: the two open findings are the two ways to violate BlockOK)
            dom = vlib.run_model([{"op": "gen_ok", "name": g["name"], "text": g["text"]} for g in gens]) or []
            for g, d in zip(gens, dom):
                inside = d.get("parts") and d.get("ok") and d.get("same_text") and d.get("decl_name") == g["name"]
                DOMAIN["in" if inside else "out"] += 1
                if not inside and g["shape"] not in BAD_SHAPES:
                    ctx.broken.append(f"a generated text of shape `{g['shape']}` is outside the domain of C05_history_canonical (GenOK): {json.dumps(d)} {json.dumps(g['text'])[:200]}")
                if inside and g["shape"] in BAD_SHAPES:
                    ctx.broken.append(f"a text with the defect shape `{g['shape']}` is inside the theorem's domain: the domain predicate does not separate the findings")
            real = vlib.run_real(binary, cases)
            model = vlib.run_model(cases)
            dis = vlib.compare(ctx, f"export_and_merge histories ({'out-of-domain' if bad else 'WF'} set {si})", cases, real, model, canon)
            # oracle on the implementation: final bytes = canonFile(set), for every order
            cf = vlib.run_model([{"op": "canon_file", "names": [g["name"] for g in gens], "texts": [g["text"] for g in gens]}])[0]
            finals = [final_file(r) for r in real]
            oks = [all(s == "ok" for s in r["steps"]) for r in real]
            failing = [(h, f, r) for h, f, r, ok in zip(hs, finals, real, oks) if not ok or f != cf.get("ok")]
            total += len(cases)
            nontriv += len({tuple(h["_perm"]) for h in hs})
            if not failing:
                continue
            h, f, r = failing[0]
            desc = {"gens": gens, "order": h["_perm"], "steps": h["steps"]}
            if bad:
                badshapes = sorted({g["shape"] for g in gens if g["shape"] in BAD_SHAPES})
                e = next((e for e in ctx.known if e.get("match", {}).get("shape") in badshapes), None)
                if e:
                    ctx.known_finding(e, f"{len(failing)}/{len(hs)} orders of a set containing a `{e['match']['shape']}` block end in a file different from the canonical one")
                    continue
            ctx.violation("merged file differs from the canonical file for some export order" + (" (declaration text outside WFBlock; not a listed finding)" if bad else ""),
                          desc, {"final_file": f, "canonical": cf, "step_results": r["steps"], "orders_failing": len(failing), "orders": len(hs)})
    ctx.stream("export_and_merge histories", total, nontriv,
               "sets of 3-5 generated texts sharing one file (names that are prefixes of one another / differ in case / non-ASCII; one-line, multi-line, documented, "
               "unicode blocks; overlapping and disjoint import sets; stale initial file every second set) x all permutations (<=24/120) with interleaved re-exports; "
               "plus the same with one block outside WFBlock (blank line in a block doc, `export type` inside a field doc); non-trivial = distinct orders",
               [{"steps": [s.get("name", s["k"]) for s in hs[0]["steps"]]}], {})
    public_entry_points(ctx)
    # merge() alone on malformed inputs (panic behaviour must correspond too)
    mal = ["", "x", NOTE, NOTE + "\n", NOTE + "\nexport type A = 1;\n", NOTE + "garbage line\n\nexport type A = 1;\n", NOTE + "\n\n\n",
           NOTE + "\n   \n", NOTE + 'import type { A } from "./A";\n\n/** */\n', NOTE + "\nexport type \n", NOTE + "\n\n\nexport type B = 2;\n\n\n\nexport type C = 3;\n"]
    mc = [{"op": "merge", "old": a, "new": b} for a in mal for b in mal]
    real = vlib.run_real(binary, mc)
    model = vlib.run_model(mc)
    vlib.compare(ctx, "merge on malformed inputs", mc, real, model)
    ctx.stream("merge (malformed inputs)", len(mc), len(mc), "all pairs of 11 malformed/edge-case file contents; panics must correspond", [mc[5]],
               {"panics": sum(1 for r in real if "panic" in r)})
    # threads: real mutex, real scheduler (assumption test, not a proof)
    tsets = make_sets(ctx)[:3]
    for gi, gens in enumerate(tsets):
        big = gens + [{"name": g["name"] + "X", "text": g["text"].replace("export type " + g["name"], "export type " + g["name"] + "X")} for g in gens]
        rounds = 10 if ctx.quick else 200
        r = vlib.run_real(binary, [{"op": "threads", "root": os.path.join(vlib.SCRATCH, "c05", "t"), "rounds": rounds,
                                    "gens": [{"name": g["name"], "text": g["text"]} for g in big]}])[0]
        cf = vlib.run_model([{"op": "canon_file", "names": [g["name"] for g in big], "texts": [g["text"] for g in big]}])[0].get("ok")
        badr = [x for x in r.get("ok", []) if not x["ok"] or x["file"] != cf]
        if badr or "ok" not in r:
            ctx.violation("concurrent exports into one file: final bytes differ from the canonical file",
                          {"gens": big, "threads": len(big)}, {"final_file": (badr[0]["file"] if badr else r), "canonical": cf, "bad_rounds": len(badr), "rounds": rounds})
        total += rounds
    # the same histories carried out SEQUENTIALLY but by different persistent threads (step i on worker assign[i]): deterministic;
    # whatever a thread keeps between its own steps is stale once another thread has written in between
    nrel = 0
    for gi, gens in enumerate(make_sets(ctx)[:6]):
        big = gens + [{"name": g["name"] + "X", "text": g["text"].replace("export type " + g["name"], "export type " + g["name"] + "X")} for g in gens]
        cf = vlib.run_model([{"op": "canon_file", "names": [g["name"] for g in big], "texts": [g["text"] for g in big]}])[0].get("ok")
        n = len(big)
        assigns = [[0, 1], [0, 1, 0], [0, 1, 2], [0, 0, 1, 1], [ctx.rng.randrange(3) for _ in range(n)]]
        for a in assigns:
            order = big[:]
            if a is assigns[-1]:
                ctx.rng.shuffle(order)
            r = vlib.run_real(binary, [{"op": "relay", "root": os.path.join(vlib.SCRATCH, "c05", "r"), "assign": a,
                                        "gens": [{"name": g["name"], "text": g["text"]} for g in order]}])[0]
            nrel += 1
            got = r.get("ok", {})
            if got.get("file") != cf or not all(got.get("steps", [False])):
                ctx.violation("exports into one file relayed over several threads (one at a time): final bytes differ from the canonical file",
                              {"gens": order, "assign": a}, {"final_file": got.get("file", r), "canonical": cf, "step_results": got.get("steps")})
                break
    ctx.stream("exports relayed over threads", nrel, nrel, "sequential histories of 6-10 exports into one file where step i runs on persistent worker thread assign[i] "
               "(alternating, round-robin over 3, pairs, random); final bytes = canonFile, every step Ok", [], {})
    ctx.stream("threaded exports", 3 * (10 if ctx.quick else 200), 3, "6-10 threads released by a barrier export into one file; final bytes must equal canonFile (test of the mutex-atomicity assumption)", [], {})
    ctx.assumptions += [
        "C05 domain (WFBlock): no blank line inside a declaration block; the text after the LAST `export type ` in the block starts with the type's name; import lines have the shape generate_imports prints",
        "the mutex held by export_and_merge gives atomicity of each export step (OS scheduler and std::sync::Mutex are assumed, exercised by the threaded stream)",
    ]
    vlib.settle(ctx)
    return ctx.finish(proof=proof)


def replay(ctx, obj):
    global NOTE
    binary = vlib.build_hookbin(ctx)
    c = obj["case"]
    if "assign" in c:
        r = vlib.run_real(binary, [{"op": "relay", "root": os.path.join(vlib.SCRATCH, "c05", "r"), "assign": c["assign"],
                                    "gens": [{"name": g["name"], "text": g["text"]} for g in c["gens"]]}])[0]
        cf = vlib.run_model([{"op": "canon_file", "names": [g["name"] for g in c["gens"]], "texts": [g["text"] for g in c["gens"]]}])[0]
        print(json.dumps({"final_file": r.get("ok", {}).get("file"), "canonical": cf, "steps": r.get("ok", {}).get("steps")}, indent=1, ensure_ascii=False))
        return 0 if r.get("ok", {}).get("file") == cf.get("ok") else 1
    case = {"op": "hist", "root": os.path.join(vlib.SCRATCH, "c05", "r"), "steps": c["steps"]}
    real = vlib.run_real(binary, [case])[0]
    cf = vlib.run_model([{"op": "canon_file", "names": [g["name"] for g in c["gens"]], "texts": [g["text"] for g in c["gens"]]}])[0]
    f = final_file(real)
    print(json.dumps({"final_file": f, "canonical": cf, "steps": real["steps"]}, indent=1, ensure_ascii=False))
    return 0 if f == cf.get("ok") else 1
