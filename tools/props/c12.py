"""C12 — built-in impls describe serde's representation of library types."""
import json, os, random
import vlib, e2e, gen_corpus
from gen_corpus import P, N, OPT, VEC
from props import corpus

ALL_PRIMS = ["u8", "i8", "u16", "i16", "u32", "i32", "u64", "i64", "u128", "i128", "usize", "isize", "f32", "f64", "bool", "char", "String", "()",
             "NonZeroU8", "NonZeroI8", "NonZeroU16", "NonZeroI16", "NonZeroU32", "NonZeroI32", "NonZeroU64", "NonZeroI64", "NonZeroU128", "NonZeroI128",
             "NonZeroUsize", "NonZeroIsize", "PathBuf", "Ipv4Addr", "Ipv6Addr", "IpAddr", "SocketAddrV4", "SocketAddr"]
gen_corpus.NONZERO.update({"NonZeroI8": "i8", "NonZeroU16": "u16", "NonZeroI16": "i16", "NonZeroU32": "u32", "NonZeroI64": "i64", "NonZeroU128": "u128",
                           "NonZeroIsize": "isize"})
WRAPS = ["box", "arc", "rc", "cow", "cell", "refcell", "mutex", "rwlock", "weak", "phantom", "ref"]


def programs(ctx):
    rng = random.Random(ctx.seed * 31 + 5)
    g = gen_corpus.Gen(rng)
    items = [{"kind": "struct", "name": "U1", "shape": "named", "attrs": {}, "generics": [], "fields": [{"name": "a", "ty": P("u8"), "attrs": {}}]},
             {"kind": "enum", "name": "U2", "attrs": {}, "generics": [], "extra_derives": ["PartialEq", "Eq", "Hash", "PartialOrd", "Ord", "Clone", "Copy"], "variants": [{"name": "X", "shape": "unit", "fields": [], "attrs": {}},
                                                                                    {"name": "Y", "shape": "unit", "fields": [], "attrs": {}}]},
             {"kind": "struct", "name": "U3", "shape": "named", "attrs": {"export_to": "sub/"}, "generics": [{"name": "T"}],
              "fields": [{"name": "t", "ty": {"k": "param", "n": "T"}, "attrs": {}}]},
             # a user type that has dependencies of its own (what a library type forwards through visit_dependencies)
             {"kind": "struct", "name": "U4", "shape": "named", "attrs": {}, "generics": [], "fields": [{"name": "u", "ty": N("U1"), "attrs": {}}, {"name": "v", "ty": VEC(N("U2")), "attrs": {}}]}]
    imap = {i["name"]: i for i in items}
    leaves = [N("U1"), N("U2"), N("U3", N("U1")), N("U3", P("bool"))]
    probes = []
    def add(t, n=2, clean=True):
        vals = []
        for _ in range(n):
            vals.append(g.val(t, imap))
        probes.append({"ty": t, "values": vals})
    for p in ALL_PRIMS:
        add(P(p), 3)
    probes.append({"ty": P("str"), "values": []})
    probes.append({"ty": P("Path"), "values": []})
    for n in (0, 1, 2, 32, 33, 64, 65, 100):      # serde serializes arrays up to length 32 only: longer ones have no values
        add({"k": "arr", "t": P("u8"), "n": n}, 1 if n <= 32 else 0)
        add({"k": "arr", "t": OPT(N("U1")), "n": n}, 1 if n <= 32 else 0)
        if n >= 32:      # the same arrays reached through containers that forward inline() to their element
            add(VEC({"k": "arr", "t": P("u8"), "n": n}), 0)
            add(OPT({"k": "arr", "t": P("i64"), "n": n}), 0)
            add({"k": "wrap", "w": "box", "t": {"k": "arr", "t": P("bool"), "n": n}}, 0)
    for ar in range(1, 11):
        add({"k": "tuple", "ts": [rng.choice([P("u8"), P("String"), N("U1"), OPT(P("i64")), N("U2")]) for _ in range(ar)]}, 1)
    for w in WRAPS:
        inner = rng.choice([P("u8"), P("String"), N("U1"), VEC(N("U2"))])
        if w == "cell": inner = P("u8")
        if w == "cow": inner = P("String")
        add({"k": "wrap", "w": w, "t": inner}, 2)
    for key in (P("String"), P("u8"), P("i64"), P("char"), P("u128"), N("U2")):   # bool keys: `[key in boolean]` is not expressible in TypeScript; outside the domain
        for impl in ("HashMap", "BTreeMap"):
            add({"k": "map", "a": key, "b": rng.choice([P("u8"), N("U1"), OPT(P("String"))]), "impl": impl}, 2)
    # every argument position of every constructor holds a user type THROUGH another library type (its generics must still be visited)
    W = lambda w, t: {"k": "wrap", "w": w, "t": t}
    for impl in ("HashMap", "BTreeMap"):
        for key in (W("box", N("U2")), W("arc", N("U2")), W("rc", N("U2"))):
            add({"k": "map", "a": key, "b": VEC(N("U1")), "impl": impl}, 1)
        add({"k": "map", "a": P("String"), "b": W("box", N("U3", N("U1"))), "impl": impl}, 1)
    for outer in ("option", "vec"):
        for inner in (W("box", N("U1")), VEC(N("U2")), OPT(W("arc", N("U3", N("U2")))), {"k": "tuple", "ts": [N("U1"), W("rc", N("U2"))]}):
            add({"k": outer, "t": inner}, 1)
    add({"k": "arr", "t": W("box", N("U1")), "n": 2}, 1)
    add({"k": "tuple", "ts": [W("box", N("U1")), VEC(W("arc", N("U2")))]}, 1)
    add({"k": "result", "a": W("box", N("U1")), "b": VEC(N("U2"))}, 2)
    for impl in ("HashSet", "BTreeSet"):
        add({"k": "set", "t": W("box", N("U2")), "impl": impl}, 1)
    for impl in ("Range", "RangeInclusive"):
        for p in ("u8", "i64", "usize"):
            add({"k": "range", "t": P(p), "impl": impl}, 1)
    for impl in ("HashSet", "BTreeSet"):
        add({"k": "set", "t": P("u8"), "impl": impl}, 2)
        add({"k": "set", "t": N("U2"), "impl": impl}, 2)
    add({"k": "slice", "t": N("U1")}, 0)
    add({"k": "result", "a": N("U1"), "b": P("String")}, 3)
    add({"k": "result", "a": OPT(P("u64")), "b": N("U2")}, 3)
    # every library constructor around a user type WITH dependencies, in every argument position
    for t4 in ({"k": "result", "a": P("u8"), "b": N("U4")}, {"k": "result", "a": N("U4"), "b": P("String")}, VEC({"k": "result", "a": N("U1"), "b": N("U4")}),
               OPT(N("U4")), VEC(N("U4")), {"k": "tuple", "ts": [N("U4"), N("U1")]}, {"k": "tuple", "ts": [P("u8"), N("U4")]}, {"k": "arr", "t": N("U4"), "n": 2},
               W("box", N("U4")), W("arc", N("U4")), {"k": "map", "a": P("String"), "b": N("U4"), "impl": "HashMap"}, {"k": "map", "a": P("u8"), "b": VEC(N("U4")), "impl": "BTreeMap"},
               {"k": "set", "t": W("box", N("U2")), "impl": "BTreeSet"}, OPT({"k": "result", "a": VEC(N("U4")), "b": OPT(N("U4"))})):
        add(t4, 1)
    for _ in range(60 if ctx.quick else 600):
        add(g.ty(3, leaves), 2)
    # (after the random part, so that the random stream is what it was) an Option around every constructor that has an Option somewhere inside, at the OUTER `None` and at a `Some`: the outer `| null` may
    # not be dropped because the inner text already mentions one
    for inner in (VEC(OPT(P("u8"))), {"k": "arr", "t": OPT(P("bool")), "n": 2}, {"k": "tuple", "ts": [OPT(P("u8")), P("String")]},
                  {"k": "map", "a": P("String"), "b": OPT(N("U1")), "impl": "HashMap"}, {"k": "set", "t": OPT(P("u8")), "impl": "BTreeSet"},
                  {"k": "result", "a": OPT(P("u8")), "b": P("String")}, W("box", VEC(OPT(N("U2")))), VEC(VEC(OPT(P("i64"))))):
        probes.append({"ty": OPT(inner), "values": [{"k": "none"}, {"k": "some", "v": g.val(inner, imap)}]})
        probes.append({"ty": VEC(OPT(inner)), "values": [{"k": "seq", "vs": [{"k": "none"}, {"k": "some", "v": g.val(inner, imap)}]}]})
    for pr in probes:   # unsized / non-serializable shapes: no values
        if json.dumps(pr["ty"]).count('"w": "ref"') or pr["ty"].get("k") == "slice":
            pr["values"] = pr["values"] if pr["ty"].get("k") != "slice" else []
    # the rows/values where the property is known to fail (kept apart)
    bad = [{"ty": {"k": "wrap", "w": "phantom", "t": P("u8")}, "values": [{"k": "phantom"}], "_finding": "C12-phantom"},
           {"ty": {"k": "wrap", "w": "weak", "t": P("String")}, "values": [{"k": "weak_dead"}], "_finding": "C12-weak-dead"},
           {"ty": P("f64"), "values": [{"k": "nan"}], "_finding": "C12-non-finite-float"},
           {"ty": VEC(P("f32")), "values": [{"k": "seq", "vs": [{"k": "nan"}]}], "_finding": "C12-non-finite-float"}]
    return [{"items": items, "probes": probes}, {"items": items, "probes": bad}]


def fix_values(progs):
    """phantom / weak need their own value constructors"""
    def fix(t, v):
        if t["k"] == "wrap" and t["w"] == "phantom":
            return {"k": "phantom"}
        return v
    for prog in progs[:1]:
        for pr in prog["probes"]:
            pr["values"] = [walk(pr["ty"], v) for v in pr["values"]]


def walk(t, v):
    k = t["k"]
    if k == "wrap":
        if t["w"] == "phantom":
            return {"k": "phantom"}
        return walk(t["t"], v)
    if k == "option" and v["k"] == "some":
        return {"k": "some", "v": walk(t["t"], v["v"])}
    if k in ("vec", "set", "arr", "slice") and v["k"] == "seq":
        return {"k": "seq", "vs": [walk(t["t"], x) for x in v["vs"]]}
    if k == "tuple" and v["k"] == "seq":
        return {"k": "seq", "vs": [walk(a, x) for a, x in zip(t["ts"], v["vs"])]}
    if k == "map" and v["k"] == "map":
        return {"k": "map", "kvs": [[walk(t["a"], a), walk(t["b"], b)] for a, b in v["kvs"]]}
    if k == "result":
        return {"k": v["k"], "v": walk(t["a"] if v["k"] == "ok" else t["b"], v["v"])}
    return v


def run(ctx):
    proof = vlib.lean_check(ctx)
    progs = programs(ctx)
    fix_values(progs)
    hb = vlib.build_hookbin(ctx)
    chars = vlib.char_table(hb, corpus.ALPHABET) if hb else {"op": "set_chars", "table": []}
    real, _ = e2e.build_and_run(ctx, "c12", progs)
    if real is None:
        vlib.settle(ctx)
        return ctx.finish(proof=proof)
    model = e2e.run_model_programs(progs, chars, os.path.join(vlib.SCRATCH, "e2e-c12"))
    dis = []
    for pi, (prog, R, M) in enumerate(zip(progs, real, model or [])):
        for qi, (pr, r, m) in enumerate(zip(prog["probes"], R, M)):
            for k in ("name", "inline", "inline_flattened"):
                if r.get(k) != m.get(k):
                    dis.append((pr["ty"], k, r.get(k), m.get(k)))
            for k in ("deps", "generics"):
                if sorted(map(tuple, r.get(k, []))) != sorted(map(tuple, m.get(k, []))):
                    dis.append((pr["ty"], k, r.get(k), m.get(k)))
            if [e2e.jnorm(x) for x in r.get("values", [])] != [e2e.jnorm(x) for x in m.get("values", [])]:
                dis.append((pr["ty"], "values", r.get("values"), m.get("values")))
    if dis:
        t, k, rv, mv = dis[0]
        ctx.broken.append(f"compiled correspondence (library types): {len(dis)} disagreements; first: {json.dumps(t)[:200]} field {k}: impl={json.dumps(rv)[:300]} model={json.dumps(mv)[:300]}")
    # oracle
    decls = [r["decl"]["ok"] for pr, r in zip(progs[0]["probes"], real[0]) if "decl" in r and "ok" in r["decl"]]
    udecls = ["type U1 = { a: number, };", "type U2 = \"X\" | \"Y\";", "type U3<T> = { t: T, };", "type U4 = { u: U1, v: Array<U2>, };"]
    qs, meta = [], []
    for pi, prog in enumerate(progs):
        for pr, r in zip(prog["probes"], real[pi]):
            for v, jt in zip(pr["values"], r.get("values", [])):
                if jt is None or "ok" not in r["name"]:
                    continue
                qs.append({"op": "oracle_member", "decls": udecls, "ty": r["name"]["ok"], "json": jt})
                meta.append((pr, v))
                if "ok" in r.get("inline", {}) and r["inline"]["ok"] != r["name"]["ok"]:
                    qs.append({"op": "oracle_member", "decls": udecls, "ty": r["inline"]["ok"], "json": jt})
                    meta.append((pr, v))
    # arrays: serde writes `[T; N]` as a tuple of exactly N elements (natively up to 32, through serialize_tuple beyond), so up to
    # ARRAY_TUPLE_LIMIT both name() and inline() must accept N elements and reject N-1 / N+1, however the array is reached
    aq, ameta = [], []
    for pr, r in zip(progs[0]["probes"], real[0]):
        n = arr_len(pr["ty"])
        if n is None:
            continue
        for which in ("name", "inline"):
            if "ok" not in r.get(which, {}):
                continue
            for m in ([n] if n > LIMIT else [n - 1, n, n + 1]):
                if m < 0:
                    continue
                aq.append({"op": "oracle_member", "decls": udecls, "ty": r[which]["ok"], "json": json.dumps(synth(pr["ty"], m))})
                ameta.append((pr, which, n, m))
    for q, (pr, which, n, m), o in zip(aq, ameta, (vlib.run_model(aq) if aq else []) or []):
        if "ok" not in o:
            ctx.broken.append(f"oracle cannot read the implementation's type text: {json.dumps(o)[:200]}")
        elif o["ok"] is not (m == n):
            ctx.violation(f"{which}() of an array type of length {n} {'rejects' if m == n else 'accepts'} a sequence of {m} elements",
                          {"type": pr["ty"], "presentation": which, "elements": m}, {"ts_type": q["ty"][:400]})
    res = vlib.run_model(qs) if qs else []
    fails = 0
    for q, (pr, v), o in zip(qs, meta, res or []):
        if o.get("ok") is True:
            continue
        if "ok" not in o:
            ctx.broken.append(f"oracle cannot read the implementation's type text: {json.dumps(o)[:200]}")
            continue
        tv = json.dumps(pr["ty"]) + json.dumps(v)
        fid = "C12-phantom" if '"w": "phantom"' in tv else "C12-weak-dead" if '"weak_dead"' in tv else "C12-non-finite-float" if '"k": "nan"' in tv else None
        e = next((e for e in ctx.known if e["id"] == fid), None) if fid else None
        if e:
            ctx.known_finding(e, f"{q['ty']} vs serde_json {q['json']}")
            continue
        fails += 1
        if fails <= 5:
            ctx.violation("serde_json's output for a library type does not inhabit the TypeScript type ts-rs reports",
                          {"type": pr["ty"], "value": v}, {"ts_type": q["ty"], "serde_json": q["json"]})
    # dependency clause: a library type contributes exactly its type arguments
    dep_fail = 0
    for pr, r in zip(progs[0]["probes"], real[0]):
        want = sorted(set(arg_names(pr["ty"])))
        got = sorted({d[0] for d in r.get("generics", [])})
        t = pr["ty"]
        if t["k"] != "named" and want != got:
            dep_fail += 1
            if dep_fail <= 3:
                ctx.violation("a library type does not contribute exactly its (exportable) type arguments through visit_generics",
                              {"type": t}, {"visited": got, "arguments": want})
    # ... and through visit_dependencies (the inline path) exactly the dependencies of those arguments
    own = {"U1": set(), "U2": set(), "U4": {"U1", "U2"}}
    for pr, r in zip(progs[0]["probes"], real[0]):
        t = pr["ty"]
        if t["k"] == "named" or '"id": "U3"' in json.dumps(t) or '"k": "tuple"' in json.dumps(t):
            continue          # (tuples cannot be inlined: `inline()` panics, there is no inline path through them)
        want = sorted(set().union(*[own[x] for x in arg_names(t)])) if arg_names(t) else []
        got = sorted({d[0] for d in r.get("deps", [])})
        if want != got:
            dep_fail += 1
            if dep_fail <= 6:
                ctx.violation("a library type does not forward exactly the dependencies of its type arguments through visit_dependencies (the inline path)",
                              {"type": t}, {"dependencies": got, "expected": want})
    n = sum(len(p["probes"]) for p in progs)
    ctx.stream("library types (compiled): name()/inline()/visit_generics vs model; serde_json output vs reported type", len(qs) + n, n,
               "every impl_primitives! row of std, arrays of length 0/1/2/32/33/64/65/100, tuples of arity 1..10, all 11 wrappers, maps over 6 key types x Hash/BTree, ranges, sets, "
               "Result, slices, plus random compositions to depth 3 over user leaf types; 1-3 values each (range ends, None/Some, empty/non-empty); non-trivial = probes",
               [{"type": qs[0]["ty"], "json": qs[0]["json"]}] if qs else [], {"model_disagreements": len(dis), "oracle_failures": fails, "oracle_evaluated": len(qs)})
    ctx.assumptions += ["feature-gated third-party types (chrono, uuid, url, ...) are covered by the generated table + C12_table only for rows the serde model knows (std types); "
                        "their crates are not compiled in this stream", "usize/isize are specified as `number` (what ts-rs documents), although they are 64-bit on this target"]
    vlib.settle(ctx)
    return ctx.finish(proof=proof)


LIMIT = 64     # ARRAY_TUPLE_LIMIT (Props/C12 reads the constant from the source; the compiled correspondence ties the model to it)


def arr_len(t):
    """length of the (single) array inside a library type expression built from arr / vec / option / wrap, else None"""
    k = t["k"]
    if k == "arr":
        e = t["t"]
        return t["n"] if (e["k"] == "prim" and e["r"] in ("u8", "i64", "bool")) or (e["k"] == "option" and e["t"]["k"] == "named") else None
    if k in ("vec", "option", "wrap") and isinstance(t.get("t"), dict):
        return arr_len(t["t"])
    return None


def synth(t, m):
    k = t["k"]
    if k == "arr":
        return [synth(t["t"], m) for _ in range(m)]
    if k == "vec":
        return [synth(t["t"], m)]
    if k == "option":
        return synth(t["t"], m) if arr_len(t) is not None else None
    if k == "wrap":
        return synth(t["t"], m)
    if k == "prim":
        return True if t["r"] == "bool" else 0
    return None


def arg_names(t):
    """exportable named types occurring as (transitive) type arguments of a library type expression"""
    k = t["k"]
    if k == "named":
        out = [("U3" if t["id"] == "U3" else t["id"])]
        for a in t["args"]:
            out += arg_names(a)
        return out
    out = []
    for key in ("t", "a", "b"):
        if key in t and isinstance(t[key], dict):
            out += arg_names(t[key])
    for x in t.get("ts", []):
        out += arg_names(x)
    return out


def replay(ctx, obj):
    print(json.dumps(obj, indent=1)[:2000])
    return 0
