#!/usr/bin/env python3
"""Entry point: python3 tools/check.py Cnn --tier quick|thorough   |   --replay <file>"""
import argparse, importlib, json, os, sys
sys.path.insert(0, os.path.dirname(os.path.abspath(__file__)))
import vlib


def main():
    ap = argparse.ArgumentParser()
    ap.add_argument("pid")
    ap.add_argument("--tier", default=os.environ.get("VERIF_TIER", "quick"), choices=["quick", "thorough"])
    ap.add_argument("--replay")
    a = ap.parse_args()
    seed = int(os.environ.get("VERIF_SEED", "1"))
    mod = importlib.import_module(f"props.{a.pid.lower()}")
    ctx = vlib.Ctx(a.pid, a.tier, seed)
    if a.replay:
        sys.exit(mod.replay(ctx, json.load(open(a.replay))))
    try:
        rc = mod.run(ctx)
    except Exception as e:  # machinery failure: report as a broken check, never silently pass
        import traceback
        traceback.print_exc()
        ctx.broken.append(f"check machinery raised {type(e).__name__}: {e}")
        vlib.settle(ctx)
        rc = ctx.finish()
    sys.exit(rc)


if __name__ == "__main__":
    main()
