#!/usr/bin/env python3
"""Translator: regenerates lean/TsRsVerif/Generated/Tables.lean from /repo's working tree.

Extracted with anchored regular expressions over macro invocations / constants whose shape is rigid.
If a block cannot be parsed the translator FAILS (non-zero exit): a broken tie, never a silent default.
The output file is rewritten only when its content changes (so `lake build` stays incremental).
"""
import json, os, re, sys

VERIF = os.path.dirname(os.path.dirname(os.path.abspath(__file__)))
REPO = os.environ.get("TSRS_REPO", "/repo")
OUT = os.path.join(VERIF, "lean", "TsRsVerif", "Generated", "Tables.lean")
OUT_JSON = os.path.join(VERIF, "lean", "TsRsVerif", "Generated", "tables.json")


def read(rel):
    return open(os.path.join(REPO, rel), encoding="utf-8").read()


class SectionFail(Exception):
    pass


def fail(msg):
    raise SectionFail(msg)


FAILED = []          # (section, message): what could not be read from the sources


def section(T, name, fn, poison):
    """Run one extraction. When the source no longer has the shape the extraction understands, the table gets a POISON value (a row
    no real table has), so that every theorem and every tie that depends on the table stops checking, while properties that do not
    use it are not disturbed; the failure is reported on stdout and in the status file."""
    try:
        fn()
    except SectionFail as e:
        FAILED.append((name, str(e)))
        poison()
        print(f"translate.py: cannot translate: {name}: {e}")


def lean_str(s):
    out = '"'
    for ch in s:
        if ch == '"': out += '\\"'
        elif ch == '\\': out += '\\\\'
        elif ch == '\n': out += '\\n'
        elif ch == '\t': out += '\\t'
        elif ch == '\r': out += '\\r'
        elif ord(ch) < 32: out += '\\x%02x' % ord(ch)
        else: out += ch
    return out + '"'


def rust_str_lit(body):
    """decode the body of a normal Rust string literal (the few escapes used in these sources)"""
    return (body.replace('\\n', '\n').replace('\\"', '"').replace('\\\\', '\\').replace('\\t', '\t'))


def const_str(src, name, where):
    m = re.search(r'const\s+' + name + r'\s*:\s*&str\s*=\s*"((?:[^"\\]|\\.)*)"\s*;', src)
    if not m: fail(f"const {name} in {where}")
    return rust_str_lit(m.group(1))


def main():
    T = {}
    export = read("ts-rs/src/export.rs")
    lib = read("ts-rs/src/lib.rs")
    import glob as _glob
    # the attribute parsers live in macros/src/attr/: a function may move between the files of that directory
    attr_mod = "\n".join(open(f, encoding="utf-8").read() for f in sorted(_glob.glob(os.path.join(REPO, "macros/src/attr/**/*.rs"), recursive=True)))
    # ... and the export machinery in ts-rs/src/export.rs and the files below ts-rs/src/export/
    export = export + "\n" + "\n".join(open(f, encoding="utf-8").read() for f in sorted(_glob.glob(os.path.join(REPO, "ts-rs/src/export/**/*.rs"), recursive=True)))
    U = "<untranslated>"

    # ---- constants -----------------------------------------------------------------------------
    def c_note(): T["NOTE"] = const_str(export, "NOTE", "export.rs")
    section(T, "NOTE", c_note, lambda: T.__setitem__("NOTE", U))
    def c_decl(): T["DECLARATION_START"] = const_str(export, "DECLARATION_START", "export.rs")
    section(T, "DECLARATION_START", c_decl, lambda: T.__setitem__("DECLARATION_START", U))
    def c_limit():
        m = re.search(r'const\s+ARRAY_TUPLE_LIMIT\s*:\s*usize\s*=\s*(\d+)\s*;', lib)
        if not m: fail("ARRAY_TUPLE_LIMIT in lib.rs")
        T["ARRAY_TUPLE_LIMIT"] = int(m.group(1))
    section(T, "ARRAY_TUPLE_LIMIT", c_limit, lambda: T.__setitem__("ARRAY_TUPLE_LIMIT", 0))
    def c_dir():
        m = re.search(r'std::env::var\("([A-Z_]+)"\)\s*\{\s*Err\(\.\.\)\s*=>\s*Cow::Borrowed\(Path::new\("([^"]*)"\)\)', export)
        if not m:
            # tolerant second reading: the variable and the default directory anywhere inside `default_out_dir`
            f = re.search(r'fn default_out_dir\b.*?\n\}', export, flags=re.S)
            v = re.search(r'env::var(?:_os)?\(\s*"([A-Z_]+)"', f.group(0)) if f else None
            d = re.search(r'Path(?:Buf)?::(?:new|from)\(\s*"([^"]*)"', f.group(0)) if f else None
            if not (v and d): fail("default_out_dir in export.rs")
            T["EXPORT_DIR_ENV"], T["DEFAULT_OUT_DIR"] = v.group(1), d.group(1)
            return
        T["EXPORT_DIR_ENV"], T["DEFAULT_OUT_DIR"] = m.group(1), m.group(2)
    def p_dir(): T["EXPORT_DIR_ENV"] = U; T["DEFAULT_OUT_DIR"] = U
    section(T, "default_out_dir", c_dir, p_dir)
    def c_tuples():
        m = re.search(r'impl_tuples!\(([^)]*)\);', lib)
        if not m: fail("impl_tuples! invocation in lib.rs")
        T["TUPLE_MAX_ARITY"] = len([x for x in m.group(1).split(",") if x.strip()])
    section(T, "TUPLE_MAX_ARITY", c_tuples, lambda: T.__setitem__("TUPLE_MAX_ARITY", 0))

    # ---- inflection names (the `"name" => Inflection::Variant` arms of the parser in attr/mod.rs) ----------------
    def c_infl():
        m = re.search(r'fn parse_assign_inflection.*?Lit::Str\(string\)\s*=>\s*Ok\(match[^{]*\{(.*?)other\s*=>', attr_mod, flags=re.S)
        scope = m.group(1) if m else None
        if scope is None:
            # tolerant second reading: the arms wherever they are inside that function (up to the next top-level item)
            f = re.search(r'fn parse_assign_inflection\b.*?(?=\n(?:pub(?:\([^)]*\))?\s+)?fn\s|\nimpl\s|\Z)', attr_mod, flags=re.S)
            scope = f.group(0) if f else None
        if scope is None: fail("parse_assign_inflection in macros/src/attr/")
        infl = re.findall(r'"([^"]+)"\s*=>\s*(?:Inflection|Self)::(\w+)', scope)
        if len(infl) < 1:
            infl = re.findall(r'"([^"]+)"\s*=>\s*(?:Inflection|Self)::(\w+)', attr_mod)
        if len(infl) < 1: fail("no inflection arms")
        T["inflections"] = infl
    section(T, "inflections", c_infl, lambda: T.__setitem__("inflections", [(U, "Lower")]))

    # ---- primitives / wrappers / shadows -------------------------------------------------------
    def c_prims():
        prims = []   # (rust type, ts name, feature or "")
        def prim_block(body, feature):
            # `A, B, C => "x", D => "y"`
            for tys, lit in re.findall(r'((?:[^=>"]|=(?!>))+?)=>\s*"([^"]*)"', body):
                for ty in tys.split(","):
                    ty = ty.strip()
                    if ty: prims.append((re.sub(r'\s+', '', ty), lit, feature))
        for m in re.finditer(r'(#\[cfg\(feature\s*=\s*"([^"]+)"\)\]\s*)?impl_primitives!\s*[\{\(](.*?)[\}\)]\s*;?\s*\n', lib, flags=re.S):
            if "($($ty:ty)" in m.group(0) or "$l:literal" in m.group(3): continue
            prim_block(m.group(3), m.group(2) or "")
        for rel, feat in (("ts-rs/src/chrono.rs", "chrono-impl"), ("ts-rs/src/serde_json.rs", "serde-json-impl")):
            src = read(rel)
            for m in re.finditer(r'impl_primitives!\s*[\{\(](.*?)[\}\)]\s*;', src, flags=re.S):
                prim_block(m.group(1), feat)
        if not any(p[0] == "u8" for p in prims) or not any(p[0] == "()" for p in prims):
            fail("impl_primitives! main block in lib.rs")
        T["primitives"] = prims
    section(T, "primitives", c_prims, lambda: T.__setitem__("primitives", [(U, U, "")]))

    def c_wrappers():
        wrappers = []
        for rel, feat0 in (("ts-rs/src/lib.rs", ""), ("ts-rs/src/tokio.rs", "tokio-impl")):
            src = read(rel)
            for m in re.finditer(r'(#\[cfg\(feature\s*=\s*"([^"]+)"\)\]\s*)?impl_wrapper!\(impl<[^>]*(?:>[^>]*)*?>\s*TS\s+for\s+(.+?)\);', src):
                ty = re.sub(r'\s+', '', m.group(3))
                wrappers.append((ty, m.group(2) or feat0))
        if len(wrappers) < 5: fail("impl_wrapper! invocations")
        T["wrappers"] = wrappers
    section(T, "wrappers", c_wrappers, lambda: T.__setitem__("wrappers", [(U, "")]))

    def c_shadows():
        shadows = []
        for rel, feat0 in (("ts-rs/src/lib.rs", ""), ("ts-rs/src/serde_json.rs", "serde-json-impl")):
            src = read(rel)
            for m in re.finditer(r'(#\[cfg\(feature\s*=\s*"([^"]+)"\)\]\s*)?impl_shadow!\(as\s+(.+?):\s*impl(?:<.*?>)?\s*TS\s+for\s+(.+?)\);', src):
                if "$s" in m.group(3): continue
                shadows.append((re.sub(r'\s+', '', m.group(4)), re.sub(r'\s+', '', m.group(3)), m.group(2) or feat0))
        if len(shadows) < 5: fail("impl_shadow! invocations")
        T["shadows"] = shadows
    section(T, "shadows", c_shadows, lambda: T.__setitem__("shadows", [(U, U, "")]))

    # ---- attribute key tables (the eight impl_parse! blocks) ----------------------------------
    keys = {}
    for rel, pos in (("macros/src/attr/struct.rs", "struct"), ("macros/src/attr/enum.rs", "enum"),
                     ("macros/src/attr/variant.rs", "variant"), ("macros/src/attr/field.rs", "field")):
        def c_keys(rel=rel, pos=pos):
            src = read(rel)
            blocks = list(re.finditer(r'impl_parse!\s*\{\s*(Serde<)?(\w+)>?\(input,\s*out\)\s*\{(.*?)\n    \}\n\}', src, flags=re.S))
            if len(blocks) != 2: fail(f"expected two impl_parse! blocks in {rel}, found {len(blocks)}")
            got = {}
            for b in blocks:
                kind = "serde" if b.group(1) else "ts"
                body = b.group(3)
                body = re.sub(r'//[^\n]*', '', body)
                rows = []
                # split top-level arms: `"k" | "k2" => expr,`
                arms = []
                depth = 0; cur = ""
                for ch in body:
                    if ch in "({[": depth += 1
                    if ch in ")}]": depth -= 1
                    if ch == "," and depth == 0:
                        arms.append(cur); cur = ""
                    else:
                        cur += ch
                if cur.strip(): arms.append(cur)
                for arm in arms:
                    if not arm.strip(): continue
                    m = re.match(r'\s*((?:"[^"]+"\s*\|?\s*)+)=>\s*(.*)$', arm, flags=re.S)
                    if not m: fail(f"arm shape in {rel} ({kind}): {arm.strip()[:80]}")
                    ks = re.findall(r'"([^"]+)"', m.group(1))
                    expr = re.sub(r'\s+', ' ', m.group(2).strip())
                    tm = re.match(r'out(?:\.0)?\.(\w+)\s*=\s*(.*)$', expr)
                    if tm:
                        target, rhs = tm.group(1), tm.group(2)
                        pm = re.search(r'(parse_\w+)\(input\)', rhs)
                        parser = pm.group(1) if pm else ("flag_true" if rhs.strip() == "true" else "other:" + rhs)
                        wrap = "Some" if rhs.startswith("Some(") else "plain"
                    else:
                        target = "-"
                        if "using_serde_with" in expr:
                            target, parser, wrap = "using_serde_with", "with_str", "plain"
                        elif "peek(Token![=])" in expr:
                            # the two hand-written `default` arms: record exactly how often `=` is consumed
                            n_eq = expr.count("input.parse::<Token![=]>()") + expr.count("parse_assign_str(input)")
                            parser, wrap = f"opt_eq_str:{n_eq}", "none"
                        else:
                            fail(f"unrecognised arm body in {rel} ({kind}): {expr[:100]}")
                    for k in ks:
                        rows.append((k, target, parser, wrap))
                got[(kind, pos)] = rows
            if set(got) != {("ts", pos), ("serde", pos)}: fail(f"the two impl_parse! blocks of {rel} are not one ts and one serde block")
            keys.update(got)
        def p_keys(pos=pos):
            keys[("ts", pos)] = [(U, "-", "other:", "plain")]
            keys[("serde", pos)] = [(U, "-", "other:", "plain")]
        section(T, f"attribute keys ({pos})", c_keys, p_keys)
    T["keys"] = {f"{k[0]}:{k[1]}": v for k, v in keys.items()}

    # ---- inventory of order-/environment-sensitive constructs (C13) --------------------------------
    inv = []
    import glob
    files = sorted(glob.glob(os.path.join(REPO, "macros/src/**/*.rs"), recursive=True) + glob.glob(os.path.join(REPO, "ts-rs/src/**/*.rs"), recursive=True))
    for f in files:
        rel = os.path.relpath(f, REPO)
        src = open(f, encoding="utf-8").read()
        # drop the cfg(ts_rs_verif) hook blocks and comments
        src = re.sub(r'#\[cfg\((?:all\(test, )?ts_rs_verif\)?\)\]\s*(?:pub\(crate\) |pub )?(?:mod|fn)\s+\w+[^{]*\{', lambda m: "\x00HOOK{", src)
        out, depth, skip = [], 0, None
        i = 0
        while i < len(src):
            if src.startswith("\x00HOOK{", i):
                skip = depth; depth += 1; i += 6; continue
            ch = src[i]
            if ch == "{": depth += 1
            if ch == "}":
                depth -= 1
                if skip is not None and depth == skip:
                    skip = None; i += 1; continue
            if skip is None: out.append(ch)
            i += 1
        src = "".join(out)
        src = re.sub(r'#\[cfg\(ts_rs_verif\)\]\s*if let Some\(lines\) = verif_order\(self\) \{.*?return;\s*\}', '', src, flags=re.S)
        src = re.sub(r'//[^\n]*', '', src)
        # what is counted are the places where such a value lives or is made (statics, fields, locals, constructor calls, type aliases,
        # turbofish) — not `use` lines and not function SIGNATURES (a parameter or return type only passes an existing value on), so that
        # extracting a helper that takes `&HashMap<..>` does not change the inventory
        src = re.sub(r'^\s*(?:pub(?:\([^)]*\))?\s+)?use\s[^;]*;', '', src, flags=re.M)
        src = re.sub(r'\bfn\s+\w+[^{;]*(?=[{;])', 'fn _', src)
        # ... and not REFERENCE types (`&HashMap<..>`, `&'a mut HashSet<..>` in a field or a local annotation): a reference passes an
        # existing container on, it never makes one
        src = re.sub(r"&\s*(?:'\w+\s+)?(?:mut\s+)?(?:(?:std::)?collections::)?(?:HashMap|HashSet|BTreeMap|BTreeSet)\b", '&_', src)
        for pat in ("HashMap", "HashSet", "BTreeMap", "BTreeSet", "TypeId", "env::var", "std::thread", "Mutex", "OnceLock", "RandomState", "Instant", "SystemTime", "rand"):
            n = len(re.findall(r'\b' + re.escape(pat) + r'\b', src))
            if n:
                inv.append((rel, pat, n))
    T["order_inventory"] = inv
    # the theorem compares TOTALS PER CRATE (moving code between the files of a crate changes nothing); the per-file rows stay in
    # tables.json for the report
    tot = {}
    for rel, pat, n in inv:
        crate = rel.split("/")[0]
        tot[(crate, pat)] = tot.get((crate, pat), 0) + n
    T["order_inventory_crate"] = [(c, p_, n) for (c, p_), n in sorted(tot.items())]

    # ---- render -----------------------------------------------------------------------------------
    L = []
    L.append("/- GENERATED by tools/translate.py from /repo's working tree — do not edit. -/")
    L.append("namespace TsRs.Gen")
    L.append(f"def NOTE : String := {lean_str(T['NOTE'])}")
    L.append(f"def DECLARATION_START : String := {lean_str(T['DECLARATION_START'])}")
    L.append(f"def ARRAY_TUPLE_LIMIT : Nat := {T['ARRAY_TUPLE_LIMIT']}")
    L.append(f"def TUPLE_MAX_ARITY : Nat := {T['TUPLE_MAX_ARITY']}")
    L.append(f"def DEFAULT_OUT_DIR : String := {lean_str(T['DEFAULT_OUT_DIR'])}")
    L.append(f"def EXPORT_DIR_ENV : String := {lean_str(T['EXPORT_DIR_ENV'])}")
    L.append("/-- (value of `rename_all = \"..\"`, Inflection variant) — `parse_assign_inflection` -/")
    L.append("def inflections : List (String × String) := [" + ", ".join(f"({lean_str(a)}, {lean_str(b)})" for a, b in T["inflections"]) + "]")
    L.append("/-- (Rust type, TypeScript name, cargo feature or \"\") — every `impl_primitives!` row -/")
    L.append("def primitives : List (String × String × String) := [\n  " + ",\n  ".join(f"({lean_str(a)}, {lean_str(b)}, {lean_str(c)})" for a, b, c in T["primitives"]) + "]")
    L.append("/-- (Rust type, feature) — every `impl_wrapper!` row -/")
    L.append("def wrappers : List (String × String) := [\n  " + ",\n  ".join(f"({lean_str(a)}, {lean_str(b)})" for a, b in T["wrappers"]) + "]")
    L.append("/-- (Rust type, impl it defers to, feature) — every `impl_shadow!` row -/")
    L.append("def shadows : List (String × String × String) := [\n  " + ",\n  ".join(f"({lean_str(a)}, {lean_str(b)}, {lean_str(c)})" for a, b, c in T["shadows"]) + "]")
    L.append("/-- attribute key tables of the eight `impl_parse!` blocks: (key, target field, value parser, wrapper) -/")
    for k, rows in sorted(T["keys"].items()):
        nm = "keys_" + k.replace(":", "_")
        L.append(f"def {nm} : List (String × String × String × String) := [\n  " + ",\n  ".join(
            "(" + ", ".join(lean_str(x) for x in r) + ")" for r in rows) + "]")
    L.append("/-- every occurrence of an order- or environment-sensitive construct, totals per crate: (crate, construct, count) -/")
    L.append("def orderInventory : List (String × String × Nat) := [\n  " + ",\n  ".join(f"({lean_str(a)}, {lean_str(b)}, {c})" for a, b, c in T["order_inventory_crate"]) + "]")
    L.append("end TsRs.Gen")
    text = "\n".join(L) + "\n"
    os.makedirs(os.path.dirname(OUT), exist_ok=True)
    if not os.path.exists(OUT) or open(OUT).read() != text:
        open(OUT, "w").write(text)
    js = json.dumps(T, indent=1, sort_keys=True)
    if not os.path.exists(OUT_JSON) or open(OUT_JSON).read() != js:
        open(OUT_JSON, "w").write(js)
    status = os.path.join(os.path.dirname(OUT_JSON), "translate_status.json")
    st = json.dumps({"failed": [{"section": a, "message": b} for a, b in FAILED]}, indent=1)
    if not os.path.exists(status) or open(status).read() != st:
        open(status, "w").write(st)
    print("translate.py: ok" if not FAILED else f"translate.py: {len(FAILED)} section(s) could not be read from the sources: " + ", ".join(a for a, _ in FAILED))


if __name__ == "__main__":
    main()
