#!/usr/bin/env python3
"""Translator: regenerates lean/TsRsVerif/Generated/Tables.lean from /repo's working tree.

Extracted with anchored regular expressions over macro invocations / constants whose shape is rigid.
If a block cannot be parsed the translator FAILS (non-zero exit): a broken tie, never a silent default.
The output file is rewritten only when its content changes (so `lake build` stays incremental).
"""
import json, os, re, sys

VERIF = os.path.dirname(os.path.dirname(os.path.abspath(__file__)))
REPO = os.environ.get("TSRS_REPO", "/repo")
OUT = os.path.join(VERIF, "lean", "TsRsVerif", "Generated", "Tables.lean")
OUT_JSON = os.path.join(VERIF, "lean", "TsRsVerif", "Generated", "tables.json")


def read(rel):
    return open(os.path.join(REPO, rel), encoding="utf-8").read()


def fail(msg):
    print("translate.py: cannot translate: " + msg, file=sys.stderr)
    print("translate.py: cannot translate: " + msg)
    sys.exit(2)


def lean_str(s):
    out = '"'
    for ch in s:
        if ch == '"': out += '\\"'
        elif ch == '\\': out += '\\\\'
        elif ch == '\n': out += '\\n'
        elif ch == '\t': out += '\\t'
        elif ch == '\r': out += '\\r'
        elif ord(ch) < 32: out += '\\x%02x' % ord(ch)
        else: out += ch
    return out + '"'


def rust_str_lit(body):
    """decode the body of a normal Rust string literal (the few escapes used in these sources)"""
    return (body.replace('\\n', '\n').replace('\\"', '"').replace('\\\\', '\\').replace('\\t', '\t'))


def const_str(src, name, where):
    m = re.search(r'const\s+' + name + r'\s*:\s*&str\s*=\s*"((?:[^"\\]|\\.)*)"\s*;', src)
    if not m: fail(f"const {name} in {where}")
    return rust_str_lit(m.group(1))


def main():
    T = {}
    export = read("ts-rs/src/export.rs")
    lib = read("ts-rs/src/lib.rs")
    attr_mod = read("macros/src/attr/mod.rs")

    # ---- constants -----------------------------------------------------------------------------
    T["NOTE"] = const_str(export, "NOTE", "export.rs")
    T["DECLARATION_START"] = const_str(export, "DECLARATION_START", "export.rs")
    m = re.search(r'const\s+ARRAY_TUPLE_LIMIT\s*:\s*usize\s*=\s*(\d+)\s*;', lib)
    if not m: fail("ARRAY_TUPLE_LIMIT in lib.rs")
    T["ARRAY_TUPLE_LIMIT"] = int(m.group(1))
    m = re.search(r'std::env::var\("([A-Z_]+)"\)\s*\{\s*Err\(\.\.\)\s*=>\s*Cow::Borrowed\(Path::new\("([^"]*)"\)\)', export)
    if not m: fail("default_out_dir in export.rs")
    T["EXPORT_DIR_ENV"], T["DEFAULT_OUT_DIR"] = m.group(1), m.group(2)
    m = re.search(r'impl_tuples!\(([^)]*)\);', lib)
    if not m: fail("impl_tuples! invocation in lib.rs")
    T["TUPLE_MAX_ARITY"] = len([x for x in m.group(1).split(",") if x.strip()])

    # ---- inflection names (parse_assign_inflection) -------------------------------------------
    m = re.search(r'fn parse_assign_inflection.*?Lit::Str\(string\)\s*=>\s*Ok\(match[^{]*\{(.*?)other\s*=>', attr_mod, flags=re.S)
    if not m: fail("parse_assign_inflection in attr/mod.rs")
    infl = re.findall(r'"([^"]+)"\s*=>\s*Inflection::(\w+)', m.group(1))
    if len(infl) < 1: fail("no inflection arms")
    T["inflections"] = infl

    # ---- primitives / wrappers / shadows -------------------------------------------------------
    prims = []   # (rust type, ts name, feature or "")
    def prim_block(body, feature):
        # `A, B, C => "x", D => "y"`
        for tys, lit in re.findall(r'((?:[^=>"]|=(?!>))+?)=>\s*"([^"]*)"', body):
            for ty in tys.split(","):
                ty = ty.strip()
                if ty: prims.append((re.sub(r'\s+', '', ty), lit, feature))
    for m in re.finditer(r'(#\[cfg\(feature\s*=\s*"([^"]+)"\)\]\s*)?impl_primitives!\s*[\{\(](.*?)[\}\)]\s*;?\s*\n', lib, flags=re.S):
        if "($($ty:ty)" in m.group(0) or "$l:literal" in m.group(3): continue
        prim_block(m.group(3), m.group(2) or "")
    for rel, feat in (("ts-rs/src/chrono.rs", "chrono-impl"), ("ts-rs/src/serde_json.rs", "serde-json-impl")):
        src = read(rel)
        for m in re.finditer(r'impl_primitives!\s*[\{\(](.*?)[\}\)]\s*;', src, flags=re.S):
            prim_block(m.group(1), feat)
    if not any(p[0] == "u8" for p in prims) or not any(p[0] == "()" for p in prims):
        fail("impl_primitives! main block in lib.rs")
    T["primitives"] = prims

    wrappers = []
    for rel, feat0 in (("ts-rs/src/lib.rs", ""), ("ts-rs/src/tokio.rs", "tokio-impl")):
        src = read(rel)
        for m in re.finditer(r'(#\[cfg\(feature\s*=\s*"([^"]+)"\)\]\s*)?impl_wrapper!\(impl<[^>]*(?:>[^>]*)*?>\s*TS\s+for\s+(.+?)\);', src):
            ty = re.sub(r'\s+', '', m.group(3))
            wrappers.append((ty, m.group(2) or feat0))
    if len(wrappers) < 5: fail("impl_wrapper! invocations")
    T["wrappers"] = wrappers

    shadows = []
    for rel, feat0 in (("ts-rs/src/lib.rs", ""), ("ts-rs/src/serde_json.rs", "serde-json-impl")):
        src = read(rel)
        for m in re.finditer(r'(#\[cfg\(feature\s*=\s*"([^"]+)"\)\]\s*)?impl_shadow!\(as\s+(.+?):\s*impl(?:<.*?>)?\s*TS\s+for\s+(.+?)\);', src):
            if "$s" in m.group(3): continue
            shadows.append((re.sub(r'\s+', '', m.group(4)), re.sub(r'\s+', '', m.group(3)), m.group(2) or feat0))
    if len(shadows) < 5: fail("impl_shadow! invocations")
    T["shadows"] = shadows

    # ---- attribute key tables (the eight impl_parse! blocks) ----------------------------------
    keys = {}
    for rel, pos in (("macros/src/attr/struct.rs", "struct"), ("macros/src/attr/enum.rs", "enum"),
                     ("macros/src/attr/variant.rs", "variant"), ("macros/src/attr/field.rs", "field")):
        src = read(rel)
        blocks = list(re.finditer(r'impl_parse!\s*\{\s*(Serde<)?(\w+)>?\(input,\s*out\)\s*\{(.*?)\n    \}\n\}', src, flags=re.S))
        if len(blocks) != 2: fail(f"expected two impl_parse! blocks in {rel}, found {len(blocks)}")
        for b in blocks:
            kind = "serde" if b.group(1) else "ts"
            body = b.group(3)
            body = re.sub(r'//[^\n]*', '', body)
            rows = []
            # split top-level arms: `"k" | "k2" => expr,`
            i = 0
            arms = []
            depth = 0; cur = ""
            for ch in body:
                if ch in "({[": depth += 1
                if ch in ")}]": depth -= 1
                if ch == "," and depth == 0:
                    arms.append(cur); cur = ""
                else:
                    cur += ch
            if cur.strip(): arms.append(cur)
            for arm in arms:
                if not arm.strip(): continue
                m = re.match(r'\s*((?:"[^"]+"\s*\|?\s*)+)=>\s*(.*)$', arm, flags=re.S)
                if not m: fail(f"arm shape in {rel} ({kind}): {arm.strip()[:80]}")
                ks = re.findall(r'"([^"]+)"', m.group(1))
                expr = re.sub(r'\s+', ' ', m.group(2).strip())
                tm = re.match(r'out(?:\.0)?\.(\w+)\s*=\s*(.*)$', expr)
                if tm:
                    target, rhs = tm.group(1), tm.group(2)
                    pm = re.search(r'(parse_\w+)\(input\)', rhs)
                    parser = pm.group(1) if pm else ("flag_true" if rhs.strip() == "true" else "other:" + rhs)
                    wrap = "Some" if rhs.startswith("Some(") else "plain"
                else:
                    target = "-"
                    if "using_serde_with" in expr:
                        target, parser, wrap = "using_serde_with", "with_str", "plain"
                    elif "peek(Token![=])" in expr:
                        # the two hand-written `default` arms: record exactly how often `=` is consumed
                        n_eq = expr.count("input.parse::<Token![=]>()") + expr.count("parse_assign_str(input)")
                        parser, wrap = f"opt_eq_str:{n_eq}", "none"
                    else:
                        fail(f"unrecognised arm body in {rel} ({kind}): {expr[:100]}")
                for k in ks:
                    rows.append((k, target, parser, wrap))
            keys[(kind, pos)] = rows
    T["keys"] = {f"{k[0]}:{k[1]}": v for k, v in keys.items()}

    # ---- inventory of order-/environment-sensitive constructs (C13) --------------------------------
    inv = []
    import glob
    files = sorted(glob.glob(os.path.join(REPO, "macros/src/**/*.rs"), recursive=True) + glob.glob(os.path.join(REPO, "ts-rs/src/**/*.rs"), recursive=True))
    for f in files:
        rel = os.path.relpath(f, REPO)
        src = open(f, encoding="utf-8").read()
        # drop the cfg(ts_rs_verif) hook blocks and comments
        src = re.sub(r'#\[cfg\((?:all\(test, )?ts_rs_verif\)?\)\]\s*(?:pub\(crate\) |pub )?(?:mod|fn)\s+\w+[^{]*\{', lambda m: "\x00HOOK{", src)
        out, depth, skip = [], 0, None
        i = 0
        while i < len(src):
            if src.startswith("\x00HOOK{", i):
                skip = depth; depth += 1; i += 6; continue
            ch = src[i]
            if ch == "{": depth += 1
            if ch == "}":
                depth -= 1
                if skip is not None and depth == skip:
                    skip = None; i += 1; continue
            if skip is None: out.append(ch)
            i += 1
        src = "".join(out)
        src = re.sub(r'#\[cfg\(ts_rs_verif\)\]\s*if let Some\(lines\) = verif_order\(self\) \{.*?return;\s*\}', '', src, flags=re.S)
        src = re.sub(r'//[^\n]*', '', src)
        for pat in ("HashMap", "HashSet", "BTreeMap", "BTreeSet", "TypeId", "env::var", "std::thread", "Mutex", "OnceLock", "RandomState", "Instant", "SystemTime", "rand"):
            n = len(re.findall(r'\b' + re.escape(pat) + r'\b', src))
            if n:
                inv.append((rel, pat, n))
    T["order_inventory"] = inv

    # ---- render -----------------------------------------------------------------------------------
    L = []
    L.append("/- GENERATED by tools/translate.py from /repo's working tree — do not edit. -/")
    L.append("namespace TsRs.Gen")
    L.append(f"def NOTE : String := {lean_str(T['NOTE'])}")
    L.append(f"def DECLARATION_START : String := {lean_str(T['DECLARATION_START'])}")
    L.append(f"def ARRAY_TUPLE_LIMIT : Nat := {T['ARRAY_TUPLE_LIMIT']}")
    L.append(f"def TUPLE_MAX_ARITY : Nat := {T['TUPLE_MAX_ARITY']}")
    L.append(f"def DEFAULT_OUT_DIR : String := {lean_str(T['DEFAULT_OUT_DIR'])}")
    L.append(f"def EXPORT_DIR_ENV : String := {lean_str(T['EXPORT_DIR_ENV'])}")
    L.append("/-- (value of `rename_all = \"..\"`, Inflection variant) — `parse_assign_inflection` -/")
    L.append("def inflections : List (String × String) := [" + ", ".join(f"({lean_str(a)}, {lean_str(b)})" for a, b in T["inflections"]) + "]")
    L.append("/-- (Rust type, TypeScript name, cargo feature or \"\") — every `impl_primitives!` row -/")
    L.append("def primitives : List (String × String × String) := [\n  " + ",\n  ".join(f"({lean_str(a)}, {lean_str(b)}, {lean_str(c)})" for a, b, c in T["primitives"]) + "]")
    L.append("/-- (Rust type, feature) — every `impl_wrapper!` row -/")
    L.append("def wrappers : List (String × String) := [\n  " + ",\n  ".join(f"({lean_str(a)}, {lean_str(b)})" for a, b in T["wrappers"]) + "]")
    L.append("/-- (Rust type, impl it defers to, feature) — every `impl_shadow!` row -/")
    L.append("def shadows : List (String × String × String) := [\n  " + ",\n  ".join(f"({lean_str(a)}, {lean_str(b)}, {lean_str(c)})" for a, b, c in T["shadows"]) + "]")
    L.append("/-- attribute key tables of the eight `impl_parse!` blocks: (key, target field, value parser, wrapper) -/")
    for k, rows in sorted(T["keys"].items()):
        nm = "keys_" + k.replace(":", "_")
        L.append(f"def {nm} : List (String × String × String × String) := [\n  " + ",\n  ".join(
            "(" + ", ".join(lean_str(x) for x in r) + ")" for r in rows) + "]")
    L.append("/-- every occurrence of an order- or environment-sensitive construct: (file, construct, count) -/")
    L.append("def orderInventory : List (String × String × Nat) := [\n  " + ",\n  ".join(f"({lean_str(a)}, {lean_str(b)}, {c})" for a, b, c in T["order_inventory"]) + "]")
    L.append("end TsRs.Gen")
    text = "\n".join(L) + "\n"
    os.makedirs(os.path.dirname(OUT), exist_ok=True)
    if not os.path.exists(OUT) or open(OUT).read() != text:
        open(OUT, "w").write(text)
    js = json.dumps(T, indent=1, sort_keys=True)
    if not os.path.exists(OUT_JSON) or open(OUT_JSON).read() != js:
        open(OUT_JSON, "w").write(js)
    print("translate.py: ok")


if __name__ == "__main__":
    main()
