#!/bin/bash
# compact Lean error report: error headline + goal (⊢ ...) lines
cd /verif/lean && lake build "$@" 2>&1 | awk '
/^error:|^warning:.*declaration uses/ {print; show=1; next}
/^⊢/ {print; inb=1; next}
/^[a-zA-Z_\x27]+ :/ {inb=0}
/^case |^error|^✖|^✔|^trace/ {inb=0}
inb && /^  / {print}
' | head -${LERR_N:-80}
