#!/usr/bin/env python3
"""Confirm a sub-agent's mutation in a scratch worktree of /repo (current HEAD) and, if confirmed, keep it under /verif/seeded/<id>/.
usage: [MUT_ROOT=/tmp/m2_ MUT_OUT=Cnn-3] confirm_mutation.py <Cnn> <k> [patch-override]"""
import json, os, shutil, subprocess, sys, glob
pid, k = sys.argv[1], sys.argv[2]
src = os.environ.get("MUT_ROOT", "/tmp/mut_") + f"{pid}/_mut/{k}"
patch = sys.argv[3] if len(sys.argv) > 3 else os.path.join(src, "patch.diff")
SLOT = os.environ.get("CONFIRM_SLOT", "")
WT = "/tmp/confirm_wt" + SLOT
ENV = dict(os.environ, CARGO_NET_OFFLINE="true", CARGO_TARGET_DIR="/tmp/confirm_target" + SLOT)

def sh(cmd, cwd=None, timeout=3000):
    p = subprocess.run(["bash", "-c", cmd], cwd=cwd, env=ENV, stdout=subprocess.PIPE, stderr=subprocess.STDOUT, text=True, timeout=timeout)
    return p.returncode, p.stdout

if not os.path.isdir(WT):
    sh(f"git -C /repo worktree add -q --detach {WT} HEAD")
sh("git checkout -q --detach $(git -C /repo rev-parse HEAD) && git checkout -- . && git clean -fdq", cwd=WT)
res = {"property": pid, "mutation": k, "patch": patch, "repo_head": sh("git -C /repo rev-parse --short HEAD")[1].strip()}

def run_demo():
    """returns (rc, tail) of the demonstration in the current state of WT"""
    demo_dir = os.path.join(src, "demo")
    if os.path.isdir(demo_dir):
        dst = os.path.join(WT, "_mut", k, "demo")
        shutil.rmtree(os.path.join(WT, "_mut"), ignore_errors=True)
        shutil.copytree(demo_dir, dst, ignore=shutil.ignore_patterns("target"))
        shutil.copy(os.path.join(WT, "Cargo.lock"), os.path.join(dst, "Cargo.lock"))
        env_t = "CARGO_TARGET_DIR=/tmp/confirm_target_demo" + SLOT
        if os.path.exists(os.path.join(dst, "run.sh")):
            rc, out = sh(f"{env_t} bash run.sh 2>&1 | tail -15; exit ${{PIPESTATUS[0]}}", cwd=dst)
            return (0 if rc == 0 else 1), out
        has_tests = os.path.isdir(os.path.join(dst, "tests")) or "#[test]" in "".join(open(f).read() for f in glob.glob(os.path.join(dst, "src", "*.rs")))
        if not has_tests:
            rc, out = sh(f"{env_t} cargo run --offline 2>&1 | tail -15; exit ${{PIPESTATUS[0]}}", cwd=dst)
            return (0 if rc == 0 else 1), out
        rc, out = sh(f"{env_t} cargo test --offline 2>&1 | tail -15", cwd=dst)
        rc = 0 if ("test result: ok" in out and "FAILED" not in out and "error" not in out.split("test result")[0][-400:]) else 1
        return rc, out
    demos = glob.glob(os.path.join(src, "demo*.rs"))
    if demos:
        name = f"verif_demo_{pid.lower()}_{k}"
        shutil.copy(demos[0], os.path.join(WT, "ts-rs", "tests", name + ".rs"))
        rc, out = sh(f"cargo test -p ts-rs --test {name} --offline 2>&1 | tail -15", cwd=WT)
        os.remove(os.path.join(WT, "ts-rs", "tests", name + ".rs"))
        rc = 0 if ("test result: ok" in out and "FAILED" not in out) else 1
        return rc, out
    return None, "no demo found"

rc0, out0 = run_demo()
res["demo_on_head"] = {"pass": rc0 == 0, "tail": out0[-600:]}
rc, out = sh(f"git apply {patch}", cwd=WT)
res["applies"] = rc == 0
if rc == 0:
    rc, out = sh("cargo nextest run --workspace --no-fail-fast --offline 2>&1 | tail -4", cwd=WT)
    res["suite"] = out.strip().split("\n")[-1]
    res["suite_ok"] = "465 passed" in out and "failed" not in out
    rc1, out1 = run_demo()
    res["demo_with_change"] = {"pass": rc1 == 0, "tail": out1[-600:]}
    res["confirmed"] = bool(res["suite_ok"] and rc0 == 0 and rc1 not in (0, None))
else:
    res["confirmed"] = False
sh("git checkout -- . && git clean -fdq", cwd=WT)
print(json.dumps({k2: v for k2, v in res.items() if k2 not in ("demo_on_head", "demo_with_change")}), res.get("demo_on_head", {}).get("pass"), res.get("demo_with_change", {}).get("pass"))
if res["confirmed"]:
    d = "/verif/seeded/" + os.environ.get("MUT_OUT", f"{pid}-{k}")
    os.makedirs(d, exist_ok=True)
    shutil.copy(patch, os.path.join(d, "patch.diff"))
    for f in glob.glob(os.path.join(src, "demo*")):
        if os.path.isdir(f):
            shutil.copytree(f, os.path.join(d, "demo"), dirs_exist_ok=True, ignore=shutil.ignore_patterns("target"))
        else:
            shutil.copy(f, d)
    if os.path.exists(os.path.join(src, "notes.md")):
        shutil.copy(os.path.join(src, "notes.md"), d)
    json.dump(res, open(os.path.join(d, "meta.json"), "w"), indent=1)
