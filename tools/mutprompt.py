#!/usr/bin/env python3
"""Print the prompt given to an independent mutation sub-agent for one property (property text + worktree only)."""
import json, sys
pid = sys.argv[1]; wt = sys.argv[2]; n = sys.argv[3] if len(sys.argv) > 3 else "2"
for l in open('/verif/properties.jsonl'):
    p = json.loads(l)
    if p['id'] == pid: break
print(f"""You are helping to evaluate a verification effort for the Rust project Aleph-Alpha/ts-rs (a derive macro + runtime library that generates TypeScript type declarations from Rust types). You have your own scratch git worktree of the repository at {wt} (work ONLY inside that directory; never touch /repo or /verif, do not read /verif). The sandbox has no network; use `cargo ... --offline`.

Here is a semantic property of ts-rs that should always hold:

TITLE: {p['title']}
STATEMENT: {p['statement']}
QUANTIFIER: {p['quantifier']['text']}
RELEVANT FILES: {', '.join(p['anchors']['files'])}

Your task: produce {n} DIFFERENT, realistic source changes (bugs a developer could plausibly introduce by refactoring, optimising or "fixing" something) to the ts-rs sources (macros/src or ts-rs/src) in that worktree, each of which BREAKS this property while (a) the workspace still compiles, and (b) the existing test suite still passes completely: run `cd {wt} && cargo nextest run --workspace --no-fail-fast --offline` (or `cargo test --workspace --offline` if nextest fails to start) and confirm 465 tests pass, 0 fail. Prefer changes that need something specific to manifest — an unusual input, a particular multi-step sequence of operations, a particular ordering/interleaving, a fault at a particular point, or two cooperating sites that each look fine alone — NOT changes that ordinary use or any simple test would expose at once. Do not touch tests, Cargo.toml files or anything under a `#[cfg(ts_rs_verif)]` / `#[cfg(all(test, ts_rs_verif))]` guard (those are verification hooks; leave them alone and do not rely on them).

For each change deliver, under {wt}/_mut/<k>/ (k = 1, 2, ...):
  - patch.diff : `git diff` of the change against the worktree's HEAD (only source files of ts-rs; must apply with `git apply` on a clean checkout of HEAD);
  - a demonstration: a self-contained small Rust test or program (for example an extra integration-test file `demo.rs` plus exact instructions, or a tiny cargo project with a path dependency on the worktree's `ts-rs` crate, using an empty `[workspace]` table and a copy of the repository's Cargo.lock so it builds offline) that FAILS with the change applied and PASSES on the unchanged HEAD. Actually run it both ways and record the outputs;
  - notes.md : which part of the property is broken, what specific input / sequence / condition is needed for it to manifest, and the exact commands you ran (suite result with the change, demo result with and without the change).
Make the changes independent of each other (each patch is against the clean HEAD; reset the worktree with `git checkout -- .` between them). Keep build output inside the worktree (default ./target is fine). When you are done, reply with a short summary listing each mutation (files touched, what it needs to manifest) and confirm that the suite passed with each.""")
