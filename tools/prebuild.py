#!/usr/bin/env python3
"""Warm the cargo target directories used by the checks (so quick checks are incremental)."""
import os, sys
sys.path.insert(0, os.path.dirname(os.path.abspath(__file__)))
import vlib
ctx = vlib.Ctx("setup", "quick", 0)
ok = True
for esm in (False, True):
    ok &= vlib.build_hookbin(ctx, esm=esm) is not None
for name in ("build_macrodrv", "build_e2e"):
    fn = getattr(vlib, name, None)
    if fn:
        ok &= fn(ctx) is not None
print("prebuild:", "ok" if ok else "FAILED", ctx.broken)
sys.exit(0 if ok else 1)
