#!/usr/bin/env python3
"""Maintain MANIFEST.json: python3 tools/manifest_add.py  (re-generates checks from tools/manifest_entries.json)"""
import json, os, subprocess
V = os.path.dirname(os.path.dirname(os.path.abspath(__file__)))
entries = json.load(open(os.path.join(V, "tools", "manifest_entries.json")))
props = [json.loads(l) for l in open(os.path.join(V, "properties.jsonl"))]
M = json.load(open(os.path.join(V, "MANIFEST.json")))
M["checks"], M["not_applicable"] = [], []
repo_commits = subprocess.run(["git", "-C", "/repo", "log", "--format=%h %s"], capture_output=True, text=True).stdout.strip().split("\n")
M["hooks"]["source_commits"] = [l.split()[0] for l in repo_commits if l.split(" ", 1)[1].startswith("verif hooks")]
for p in props:
    pid = p["id"]
    e = entries.get(pid)
    if not e or e.get("unclaimed"):
        M["not_applicable"].append({"property_id": pid, "reason": (e or {}).get("reason", "not yet claimed: model/theorems/tie under construction (DESIGN.md §8 build order); no check registered yet")})
        continue
    M["checks"].append({"property_id": pid, "quick_cmd": f"python3 tools/check.py {pid} --tier quick",
                        "thorough_cmd": f"python3 tools/check.py {pid} --tier thorough", "evidence_file": f"evidence/{pid}.json",
                        "replay_cmd_template": f"python3 tools/check.py {pid} --replay {{path}}", "engine": "lean4-model",
                        "level_claimed": {"category": e.get("category", "proof"), "text": e["text"], "design_ref": f"DESIGN.md §4 {pid}"},
                        "level_note": e["note"], "technique": e.get("technique", "Lean 4 theorem over an executable model + differential correspondence with the Rust implementation")})
claimed = [c["property_id"] for c in M["checks"]]
for eng in M["engines"]:
    eng["serves_properties"] = claimed
json.dump(M, open(os.path.join(V, "MANIFEST.json"), "w"), indent=1)
print("claimed:", claimed)
