#!/usr/bin/env python3
"""Apply every seeded change of /verif/seeded to /repo in turn, run the check of its property, revert.
Writes /verif/seeded/RESULTS.json: which check reports which change. Not part of any registered command."""
import json, os, subprocess, sys
ROOT = "/verif/seeded"
only = sys.argv[1:]
res = {}
for d in sorted(os.listdir(ROOT)):
    p = os.path.join(ROOT, d)
    if not os.path.isdir(p) or (only and d not in only and d.split("-")[0] not in only):
        continue
    pid = d.split("-")[0]
    patch = next((os.path.join(p, f) for f in ("patch_adapted.diff", "patch.diff") if os.path.exists(os.path.join(p, f))), None)
    if subprocess.run(["git", "-C", "/repo", "apply", "--check", patch]).returncode != 0:
        res[d] = {"patch": os.path.basename(patch), "applies": False}
        continue
    subprocess.run(["git", "-C", "/repo", "apply", patch], check=True)
    try:
        pr = subprocess.run([sys.executable, "/verif/tools/check.py", pid, "--tier", "quick"], cwd="/verif", capture_output=True, text=True)
    finally:
        subprocess.run(["git", "-C", "/repo", "checkout", "--", "."], check=True)
        subprocess.run(["git", "-C", "/repo", "clean", "-fdq", "--", "macros", "ts-rs"])
    viol = [l for l in pr.stdout.split("\n") if l.startswith("VIOLATION")]
    whats = [l.strip() for l in pr.stdout.split("\n") if l.startswith("  (")]
    res[d] = {"patch": os.path.basename(patch), "applies": True, "exit": pr.returncode, "violations": len(viol),
              "no_failing_input_found": any(v.endswith("no-failing-input-found") for v in viol), "first": whats[0][:300] if whats else None}
    print(d, res[d], flush=True)
old = {}
out = os.path.join(ROOT, "RESULTS.json")
if os.path.exists(out) and only:
    old = json.load(open(out))
old.update(res)
json.dump(old, open(out, "w"), indent=1, ensure_ascii=False)
