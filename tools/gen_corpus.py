#!/usr/bin/env python3
"""Type-directed generator of programs (items + probes + values) for the compiled correspondence.
Every random choice comes from the Random instance passed in (seeded from VERIF_SEED)."""
import copy

P = lambda r: {"k": "prim", "r": r}
N = lambda id, *a: {"k": "named", "id": id, "args": list(a)}
OPT = lambda t: {"k": "option", "t": t}
VEC = lambda t: {"k": "vec", "t": t}
PARAM = lambda n: {"k": "param", "n": n}

RULES = ["Lower", "Upper", "Camel", "Snake", "Pascal", "ScreamingSnake", "Kebab", "ScreamingKebab"]
INT_RANGES = {"u8": (0, 255), "i8": (-128, 127), "u16": (0, 65535), "i16": (-32768, 32767), "u32": (0, 2**32 - 1), "i32": (-2**31, 2**31 - 1),
              "u64": (0, 2**64 - 1), "i64": (-2**63, 2**63 - 1), "u128": (0, 2**128 - 1), "i128": (-2**127, 2**127 - 1),
              "usize": (0, 2**64 - 1), "isize": (-2**63, 2**63 - 1)}
NONZERO = {"NonZeroU8": "u8", "NonZeroI32": "i32", "NonZeroU64": "u64", "NonZeroI128": "i128", "NonZeroUsize": "usize"}
# no 128-bit leaves here: serde's buffered `Content` (used below `flatten` and internal tags) cannot carry them; C12's stream covers them
LEAF_PRIMS = ["u8", "i8", "u16", "i32", "u32", "u64", "i64", "usize", "isize", "f32", "f64", "bool", "char", "String", "()",
              "NonZeroU8", "NonZeroI32", "NonZeroU64", "PathBuf", "Ipv4Addr", "IpAddr", "SocketAddr"]
FIELD_NAMES = ["a", "b", "foo_bar", "fooBar", "x1", "r#type", "value", "kind", "_p", "inner", "opt", "list", "m", "id", "HTTPCode", "v2_x"]
ODD_RENAMES = ["a-b", "1x", "$x", "with space", "é", "Ünï", "x.y", "class", "_", "a_b_c", "007", "42", "12345678901234567890",
               "٣d", "３x", "၂a"]      # decimal digits of other scripts in front (not identifier starts either)
VARIANT_NAMES = ["A", "B", "Cee", "FooBar", "Foo_Bar", "X1", "r#Type", "HTTPServer", "Dd", "Unit", "Tup", "Str"]


class Gen:
    def __init__(self, rng):
        self.rng = rng
        self.tags = {}
        self.used_names = set()

    def tag(self, t):
        self.tags[t] = self.tags.get(t, 0) + 1

    # ---- values -----------------------------------------------------------------------------
    def val(self, t, items, depth=0):
        r, k = self.rng, t["k"]
        if k == "prim":
            p = t["r"]
            if p in INT_RANGES:
                lo, hi = INT_RANGES[p]
                return {"k": "int", "i": str(r.choice([lo, hi, 0, 1, r.randint(lo, hi)]))}
            if p in NONZERO:
                lo, hi = INT_RANGES[NONZERO[p]]
                return {"k": "int", "i": str(r.choice([hi, 1, lo if lo != 0 else 1]))}
            if p in ("f32", "f64"):
                return r.choice([{"k": "float", "r": "1.5"}, {"k": "float", "r": "-0.25"}, {"k": "int", "i": "3"}, {"k": "float", "r": "1e300" if p == "f64" else "1e30"}])
            if p == "bool": return {"k": "bool", "b": r.random() < 0.5}
            if p == "char": return {"k": "char", "c": r.choice(["a", "é", "\"", "Z", "0"])}
            if p in ("String", "str", "PathBuf", "Path"): return {"k": "str", "s": r.choice(["", "hi", "a b", "q\"uote", "ünï", "null"])}
            if p == "Ipv4Addr": return {"k": "str", "s": "127.0.0.1"}
            if p == "Ipv6Addr": return {"k": "str", "s": "::1"}
            if p == "IpAddr": return {"k": "str", "s": r.choice(["10.0.0.1", "::1"])}
            if p == "SocketAddr": return {"k": "str", "s": "127.0.0.1:80"}
            if p == "SocketAddrV4": return {"k": "str", "s": "127.0.0.1:80"}
            if p == "()": return {"k": "unit"}
        if k == "option":
            return {"k": "none"} if r.random() < 0.4 else {"k": "some", "v": self.val(t["t"], items, depth + 1)}
        if k in ("vec", "slice"):
            return {"k": "seq", "vs": [self.val(t["t"], items, depth + 1) for _ in range(r.choice([0, 1, 2]))]}
        if k == "set":
            return {"k": "seq", "vs": [self.val(t["t"], items, depth + 1) for _ in range(r.choice([0, 1]))]}
        if k == "arr":
            return {"k": "seq", "vs": [self.val(t["t"], items, depth + 1) for _ in range(t["n"])]}
        if k == "tuple":
            return {"k": "seq", "vs": [self.val(x, items, depth + 1) for x in t["ts"]]}
        if k == "map":
            n = r.choice([0, 1])
            return {"k": "map", "kvs": [[self.val(t["a"], items, depth + 1), self.val(t["b"], items, depth + 1)] for _ in range(n)]}
        if k == "result":
            return {"k": "ok", "v": self.val(t["a"], items, depth + 1)} if r.random() < 0.5 else {"k": "err", "v": self.val(t["b"], items, depth + 1)}
        if k == "range":
            return {"k": "range", "a": self.val(t["t"], items, depth + 1), "b": self.val(t["t"], items, depth + 1)}
        if k == "wrap":
            return self.val(t["t"], items, depth)
        if k == "named":
            it = items[t["id"]]
            sigma = {g["name"]: a for g, a in zip(it.get("generics", []), t["args"])}
            if it["kind"] == "struct":
                return {"k": "struct", "vs": [self.val(subst(f["ty"], sigma), items, depth + 1) for f in it["fields"]]}
            ok = [i for i, v in enumerate(it["variants"]) if not v.get("attrs", {}).get("skip")]
            if depth > 4:   # prefer non-recursive variants when deep
                ok2 = [i for i in ok if it["variants"][i]["shape"] == "unit"]
                ok = ok2 or ok
            i = r.choice(ok)
            var = it["variants"][i]
            return {"k": "variant", "i": i, "vs": [self.val(subst(f["ty"], sigma), items, depth + 1) for f in var["fields"]]}
        raise ValueError(k)

    def all_variant_values(self, t, items):
        """one value per (non-skipped) variant of an enum type; for structs two random values"""
        it = items[t["id"]]
        sigma = {g["name"]: a for g, a in zip(it.get("generics", []), t["args"])}
        if it["kind"] == "struct":
            return [self.val(t, items), self.val(t, items), self.val(t, items)]
        out = []
        for i, var in enumerate(it["variants"]):
            if var.get("attrs", {}).get("skip"):
                continue
            for _ in range(2):
                out.append({"k": "variant", "i": i, "vs": [self.val(subst(f["ty"], sigma), items, 1) for f in var["fields"]]})
        return out

    # ---- types ------------------------------------------------------------------------------
    def leaf(self, named=()):
        r = self.rng
        if named and r.random() < 0.45:
            return r.choice(list(named))
        return P(r.choice(LEAF_PRIMS))

    def ty(self, depth, named=(), objlike=False):
        """a random type expression; `named` = closed named types usable as leaves"""
        r = self.rng
        if depth <= 0 or r.random() < 0.35:
            return self.leaf(named)
        c = r.choice(["option", "vec", "arr", "tuple", "map", "result", "range", "set", "wrap", "wrap", "option", "vec"])
        self.tag("ty:" + c)
        if c == "option": return OPT(self.ty(depth - 1, named))
        if c == "vec": return VEC(self.ty(depth - 1, named))
        if c == "arr":
            n = r.choice([0, 1, 2, 3])
            # known finding C03-zero-length-array: `[T; 0]` prints `[]` but still registers T as a dependency; keep T primitive here
            return {"k": "arr", "t": self.ty(depth - 1, named) if n else P(r.choice(["u8", "f32", "String"])), "n": n}
        if c == "tuple": return {"k": "tuple", "ts": [self.ty(depth - 1, named) for _ in range(r.choice([1, 2, 3]))]}
        if c == "map":
            key = r.choice([P("String"), P("String"), P("u8"), P("i64"), P("char")])
            return {"k": "map", "a": key, "b": self.ty(depth - 1, named), "impl": r.choice(["BTreeMap", "BTreeMap", "HashMap"])}
        if c == "result": return {"k": "result", "a": self.ty(depth - 1, named), "b": self.leaf(named)}
        if c == "range": return {"k": "range", "t": P(r.choice(["u8", "i32", "u64"])), "impl": r.choice(["Range", "RangeInclusive"])}
        if c == "set": return {"k": "set", "t": P(r.choice(["u8", "String", "i64", "char"])), "impl": r.choice(["BTreeSet", "HashSet"])}
        w = r.choice(["box", "arc", "rc", "refcell", "mutex", "rwlock", "cow"])
        inner = self.ty(depth - 1, named)
        if w == "cow":
            inner = P("String")
        return {"k": "wrap", "w": w, "t": inner}

    # ---- items ------------------------------------------------------------------------------
    def field(self, name, ty, named_only=False, allow=("rename", "inline", "flatten", "skip", "optional", "as", "docs")):
        """a field with random (valid, supported) attributes"""
        r = self.rng
        a = {}
        f = {"name": name, "ty": ty, "attrs": a}
        k = ty["k"]
        inner_named = ty if k == "named" else (ty["t"] if k in ("option", "vec", "wrap") and ty["t"]["k"] == "named" else None)
        if name is not None and "rename" in allow and r.random() < 0.25:
            cand = [x for x in ODD_RENAMES + ["renamed", "fooBar2"] if x not in self.used_names]
            if cand:
                a["rename"] = r.choice(cand)
                self.used_names.add(a["rename"])
                self.tag("field:rename")
        if "skip" in allow and r.random() < 0.08 and is_default(ty) and '"k": "param"' not in json_str(ty):
            a["skip"] = True
            a["default"] = True
            self.tag("field:skip")
            return f
        if name is not None and "optional" in allow and k == "option" and r.random() < 0.5 and '"k": "param"' not in json_str(ty):
            if r.random() < 0.5:
                a["optional"] = "optional"
                a["skip_ser_if_none"] = True
                a["default"] = True
                self.tag("field:optional")
            else:
                a["optional"] = "nullable"
                if r.random() < 0.5:
                    a["skip_ser_if_none"] = True
                    a["default"] = True
                self.tag("field:optional=nullable")
        if "docs" in allow and r.random() < 0.2:
            a["docs"] = r.choice([[" doc"], [" two", " lines"], [" with `code` and \"quotes\""], [" ünï"]])
            self.tag("field:docs")
        if "inline" in allow and r.random() < 0.35 and (k == "named" or (k in ("option", "vec") and ty["t"]["k"] == "named")) \
                and (ty if k == "named" else ty["t"])["id"] not in getattr(self, "defaulted", set()):
            # (known finding C03-inlined-default: inlining a generic type with defaulted parameters drags the defaults along as imports;
            # the fixed witnesses of tools/props/c03.py show it, the random programs stay clear of it)
            a["inline"] = True
            self.tag("field:inline(variant)")
        if "as" in allow and r.random() < 0.08 and not a.get("optional"):
            a["as"] = copy.deepcopy(ty)
            self.tag("field:as")
        return f

    def struct(self, name, named, depth=2, generics=(), force=None):
        r = self.rng
        shape = force or r.choice(["named", "named", "named", "named", "tuple", "newtype", "unit", "empty_named", "empty_tuple"])
        self.tag("struct:" + shape)
        it = {"kind": "struct", "name": name, "attrs": {}, "generics": [{"name": g} for g in generics], "de": True}
        a = it["attrs"]
        pool = list(named) + [PARAM(g) for g in generics]
        self.used_names = set()
        if shape == "named":
            n = r.choice([1, 2, 3, 4])
            names = r.sample(FIELD_NAMES, n)
            it["shape"] = "named"
            it["fields"] = [self.field(nm, self.ty(depth, pool)) for nm in names]
            if r.random() < 0.35:
                a["rename_all"] = r.choice(RULES)
                self.tag("struct:rename_all")
            if r.random() < 0.08:
                a["tag"] = r.choice(["tag", "$kind", "t"])
                self.tag("struct:tag")
        elif shape == "tuple":
            it["shape"] = "tuple"
            it["fields"] = [self.field(None, self.ty(depth, pool), allow=("skip", "docs")) for _ in range(r.choice([2, 3]))]
            if r.random() < 0.06:           # every field skipped (serde: an empty array)
                it["fields"] = [{"name": None, "ty": P(r.choice(["u8", "String", "bool"])), "attrs": {"skip": True, "default": True}} for _ in range(r.choice([2, 3]))]
                self.tag("struct:tuple-all-skipped")
        elif shape == "newtype":
            it["shape"] = "tuple"
            it["fields"] = [self.field(None, self.ty(depth, pool), allow=("docs",))]
        elif shape == "unit":
            it["shape"], it["fields"] = "unit", []
        elif shape == "empty_named":
            it["shape"], it["fields"] = "named", []
        else:
            it["shape"], it["fields"] = "tuple", []
        # every generic parameter must be used
        used = json_str(it["fields"])
        for g in generics:
            if f'"n": "{g}"' not in used:
                if it["shape"] == "named":
                    it["fields"].append({"name": "ph_" + g.lower(), "ty": PARAM(g), "attrs": {}})
                else:
                    it["shape"] = "named"
                    it["fields"] = [{"name": "only_" + g.lower(), "ty": PARAM(g), "attrs": {}}]
        if r.random() < 0.15:
            a["rename"] = r.choice(["Renamed" + name, name + "2"])
        if r.random() < 0.25:
            a["docs"] = r.choice([[" Type doc"], [" line one", " line two"]])
        if r.random() < 0.2:
            a["export_to"] = r.choice(["sub/", "shared.ts", "a/b/" + name.lower() + ".ts", "../up/"])
        return it

    def enum(self, name, named, depth=2, generics=()):
        r = self.rng
        repr_ = r.choice(["external", "external", "internal", "adjacent", "untagged"])
        self.tag("enum:" + repr_)
        it = {"kind": "enum", "name": name, "attrs": {}, "generics": [{"name": g} for g in generics], "variants": [], "de": True}
        a = it["attrs"]
        if repr_ == "internal": a["tag"] = r.choice(["tag", "t", "$kind"])
        if repr_ == "adjacent": a["tag"], a["content"] = r.choice([("t", "c"), ("type", "data")])
        if repr_ == "untagged": a["untagged"] = True
        if r.random() < 0.4:
            a["rename_all"] = r.choice(RULES)
        if r.random() < 0.25:
            a["rename_all_fields"] = r.choice(RULES)
        pool = list(named) + [PARAM(g) for g in generics]
        objlike = [t for t in named if t.get("_obj")]
        names = r.sample(VARIANT_NAMES, r.choice([1, 2, 3, 4]))
        vrenames = ["renamed-variant", "with space", "Vx", "v_y"]
        r.shuffle(vrenames)
        for vn in names:
            self.used_names = set()
            shapes = ["unit", "newtype", "tuple", "struct"]
            if repr_ == "internal": shapes = ["unit", "struct", "struct"] + (["newtype"] if objlike else [])
            sh = r.choice(shapes)
            self.tag(f"variant:{repr_}/{sh}")
            v = {"name": vn, "attrs": {}}
            if sh == "unit":
                v["shape"], v["fields"] = "unit", []
            elif sh == "newtype":
                ty = r.choice(objlike) if repr_ == "internal" else self.ty(depth, pool)
                # known finding C03-tagged-newtype-inline: inline on the field of a newtype variant of an internally/adjacently tagged enum
                v["shape"], v["fields"] = "tuple", [self.field(None, ty, allow=("docs", "inline") if repr_ in ("external", "untagged") else ("docs",))]
            elif sh == "tuple":
                v["shape"] = "tuple"
                v["fields"] = [self.field(None, self.ty(depth, pool), allow=("skip",)) for _ in range(r.choice([2, 3]))]
                if r.random() < 0.12:       # every field skipped: serde keeps the tuple style (`{"V":[]}`), unlike a skipped newtype
                    v["fields"] = [{"name": None, "ty": P(r.choice(["u8", "String", "bool"])), "attrs": {"skip": True, "default": True}} for _ in range(r.choice([2, 3]))]
                    self.tag(f"variant:{repr_}/tuple-all-skipped")
            else:
                v["shape"] = "named"
                fns = r.sample(FIELD_NAMES, r.choice([1, 2, 3]))
                v["fields"] = [self.field(fn, self.ty(depth, pool), allow=("rename", "optional", "docs", "skip")) for fn in fns]
                if r.random() < 0.2:
                    v["attrs"]["rename_all"] = r.choice(RULES)
            if r.random() < 0.2 and vrenames:
                v["attrs"]["rename"] = vrenames.pop()
            it["variants"].append(v)
        if r.random() < 0.1 and len(it["variants"]) > 1 and '"k": "param"' not in json_str(it["variants"][0]):
            it["variants"][0]["attrs"]["skip"] = True
            self.tag("variant:skip")
        used = json_str(it["variants"])
        for g in generics:
            if f'"n": "{g}"' not in used:
                it["variants"].append({"name": "Ph" + g, "shape": "tuple" if repr_ != "internal" else "named",
                                       "fields": [{"name": None if repr_ != "internal" else "p", "ty": PARAM(g), "attrs": {}}], "attrs": {}})
        if r.random() < 0.12 and repr_ != "untagged":
            it["variants"][-1]["attrs"]["untagged"] = True
            self.tag("variant:untagged")
        if r.random() < 0.2:
            a["docs"] = [" Enum doc"]
        return it

    def program(self, idx, depth=2):
        """leaf structs, then items referring to them (references, generics, inline, flatten), probes with values"""
        r = self.rng
        items, named = [], []
        def add(it, args_choices=None):
            items.append(it)
        # leaves
        l0 = self.struct(f"L{idx}a", [], depth=1, force="named")
        l0["attrs"].pop("tag", None)
        items.append(l0)
        named.append(dict(N(l0["name"]), _obj=True))
        e0 = self.enum(f"K{idx}", [], depth=0)
        items.append(e0)
        named.append(dict(N(e0["name"]), _obj=enum_is_obj(e0)))
        # a generic item
        if r.random() < 0.7:
            g = self.struct(f"G{idx}", named, depth=1, generics=["T"] if r.random() < 0.6 else ["T", "U"], force="named") if r.random() < 0.6 \
                else self.enum(f"G{idx}", named, depth=1, generics=["T"])
            if r.random() < 0.4 and g["generics"]:
                g["generics"][-1]["default"] = r.choice([P("u8"), clean(named[0])])
                self.defaulted = getattr(self, "defaulted", set()) | {g["name"]}
            items.append(g)
            args1 = [r.choice([P("bool"), P("u64"), clean(named[0]), VEC(P("String"))]) for _ in g["generics"]]
            named.append(dict(N(g["name"], *args1), _obj=(g["kind"] == "struct")))
        # items using the above, with inline / flatten
        for j in range(r.choice([1, 2, 3])):
            it = self.struct(f"S{idx}_{j}", named, depth) if r.random() < 0.55 else self.enum(f"E{idx}_{j}", named, depth)
            if it["kind"] == "struct" and it["shape"] == "named" and it["fields"]:
                # known finding C03-inlined-default: inlining OR flattening a generic type drags the defaults of its parameters along as imports
                objs = [t for t in named if t.get("_obj") and not any(g.get("default") for i2 in items if i2["name"] == t["id"] for g in i2.get("generics", []))]
                if objs and r.random() < 0.5:
                    it["fields"].append({"name": "flat", "ty": clean(r.choice(objs)), "attrs": {"flatten": True}})
                    self.tag("field:flatten")
                if r.random() < 0.5:
                    # known finding C03-inlined-default: inlining a generic type drags the defaults of its parameters along as imports
                    cands = [t for t in named if not any(g.get("default") for i2 in items if i2["name"] == t["id"] for g in i2.get("generics", []))]
                    t = clean(r.choice(cands))
                    it["fields"].append({"name": "inl", "ty": r.choice([t, VEC(t), OPT(t)]), "attrs": {"inline": True}})
                    self.tag("field:inline")
            items.append(it)
            if not it["generics"]:
                named.append(dict(N(it["name"]), _obj=(it["kind"] == "struct" and it["shape"] == "named" and bool(it["fields"])) or (it["kind"] == "enum" and enum_is_obj(it))))
        # several types per file, importing overlapping name sets from another shared file
        if r.random() < 0.35:
            for it in items[:2]:
                it["attrs"]["export_to"] = "deps.ts"
            for it in items[2:]:
                if not it["generics"]:
                    it["attrs"]["export_to"] = "shared/all.ts"
            self.tag("layout:shared+deps")
        # type aliases hiding generic arguments (`type Al = Vec<L>`): the derive only sees the alias name
        aliases = []
        for it in items[2:]:
            if it["kind"] == "struct" and it.get("shape") == "named":
                for f in it["fields"]:
                    if f["ty"]["k"] in ("vec", "option", "map", "arr", "named") and not f["attrs"] and r.random() < 0.25 and '"k": "param"' not in json_str(f["ty"]):
                        nm = f"Al{idx}_{len(aliases)}"
                        aliases.append({"name": nm, "ty": copy.deepcopy(f["ty"])})
                        f["ty"] = dict(f["ty"], alias=nm)
                        self.tag("field:alias")
        items = [strip(i) for i in items]
        imap = {i["name"]: i for i in items}
        probes = []
        for t in named:
            t = clean(t)
            probes.append({"ty": t, "de": imap[t["id"]].get("de", False), "values": self.all_variant_values(t, imap)})
        # a second instantiation of generic items
        for it in items:
            if it["generics"]:
                args = [r.choice([P("i32"), OPT(P("String")), clean(named[1])]) for _ in it["generics"]]
                t = N(it["name"], *args)
                probes.append({"ty": t, "de": it.get("de", False), "values": self.all_variant_values(t, imap)})
        # library types over the leaves
        for _ in range(3):
            t = self.ty(3, [clean(x) for x in named[:3]])
            if t["k"] != "named":
                probes.append({"ty": t, "values": [self.val(t, imap), self.val(t, imap)]})
        return {"items": items, "probes": probes, "aliases": aliases}


def enum_is_obj(it):
    """every value of the enum serializes to a JSON object (usable below an internal tag / flatten)"""
    a = it["attrs"]
    if a.get("untagged") or not it["variants"]:
        return False
    for v in it["variants"]:
        if v["attrs"].get("untagged") or v["attrs"].get("skip"):
            return False
        if a.get("tag") and not a.get("content"):
            if v["shape"] == "unit" or v["shape"] == "named":
                continue
            return False
        if a.get("tag"):
            continue            # adjacent: always an object
        if v["shape"] == "unit":
            return False        # external unit variant is a string
    return True


def is_default(ty):
    return ty["k"] in ("prim", "option", "vec", "map", "set") and (ty["k"] != "prim" or ty["r"] in INT_RANGES or ty["r"] in ("f32", "f64", "bool", "String", "()", "char", "PathBuf"))


def json_str(x):
    import json
    return json.dumps(x)


def clean(t):
    return {k: v for k, v in t.items() if not k.startswith("_")}


def strip(it):
    return it


def subst(t, sigma):
    k = t["k"]
    if k == "param": return sigma.get(t["n"], t)
    r = dict(t)
    for key in ("t", "a", "b"):
        if key in r and isinstance(r[key], dict): r[key] = subst(r[key], sigma)
    if "ts" in r: r["ts"] = [subst(x, sigma) for x in r["ts"]]
    if "args" in r: r["args"] = [subst(x, sigma) for x in r["args"]]
    return r
