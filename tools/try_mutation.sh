#!/bin/bash
# usage: try_mutation.sh <patch.diff> <Cnn> [tier]   — applies the patch to /repo, runs the check, reverts.
set -u
patch="$1"; pid="$2"; tier="${3:-quick}"
cd /repo || exit 2
git apply --check "$patch" || { echo "patch does not apply"; exit 2; }
git apply "$patch"
trap 'git -C /repo checkout -- . ; git -C /repo clean -fdq -- macros ts-rs >/dev/null 2>&1' EXIT
cd /verif && python3 tools/check.py "$pid" --tier "$tier"
echo "exit=$?"
